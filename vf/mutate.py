"""Sensitivity driver:  python -m vf.mutate <ID> [name ...] [--no-tests] [--tier quick]

Reads /verif/mutants/<ID>.json: [{"name":..., "file":..., "old":..., "new":..., "note":...}, ...]
(or {"name":..., "patch": "<file.diff>"}).  For each mutant: copy /repo (without .git, docs,
examples) to a scratch dir outside /repo and /verif, apply the edit, run the repository's own
test suite in the copy (the mutant must keep the 81 baseline tests green), run the property's
check with VERIF_REPO=<copy>, expect exit 1; delete the copy.  Results -> mutants/results/<ID>.json
"""
from __future__ import annotations

import json
import os
import shutil
import subprocess
import sys
import tempfile
import time

HOME = os.path.dirname(os.path.dirname(os.path.abspath(__file__)))
BASELINE = "/root/.vp/BASELINE.json"


def make_copy() -> str:
    base = "/dev/shm" if os.path.isdir("/dev/shm") else tempfile.gettempdir()
    d = tempfile.mkdtemp(prefix="vfmut-", dir=base)
    dst = os.path.join(d, "repo")
    shutil.copytree(
        "/repo", dst, symlinks=True,
        ignore=shutil.ignore_patterns(".git", "docs", "examples-*", "benchmarks", "__pycache__", "*.pyc", ".pytest_cache"),
    )
    return dst


def run_tests(copy: str) -> tuple[bool, str]:
    with open(BASELINE) as f:
        stable = set(json.load(f)["stable_pass"])
    junit = os.path.join(os.path.dirname(copy), "junit.xml")
    env = dict(os.environ, PYTHONPATH=copy, MOLLI_HOME=os.path.join(os.path.dirname(copy), "mh"), PYTHONDONTWRITEBYTECODE="1")
    p = subprocess.run(
        ["/venv/bin/python", "-m", "pytest", "-q", "-p", "no:cacheprovider", "--timeout=900", "--continue-on-collection-errors", f"--junitxml={junit}"],
        cwd=copy, env=env, capture_output=True, text=True, timeout=1800,
    )
    import xml.etree.ElementTree as ET

    passed = set()
    try:
        for tc in ET.parse(junit).getroot().iter("testcase"):
            if not any(c.tag in ("failure", "error", "skipped") for c in tc):
                passed.add(f"{tc.get('classname')}::{tc.get('name')}")
    except Exception as e:
        return False, f"junit parse: {e}\n{p.stdout[-500:]}"
    missing = sorted(stable - passed)
    return (not missing), ("all 81 baseline tests pass" if not missing else f"{len(missing)} baseline tests fail: {missing[:4]}")


def main(argv):
    prop = argv[0].upper()
    names = [a for a in argv[1:] if not a.startswith("--")]
    no_tests = "--no-tests" in argv
    tier = "quick"
    with open(os.path.join(HOME, "mutants", f"{prop}.json")) as f:
        muts = json.load(f)
    results = []
    for m in muts:
        if names and m["name"] not in names:
            continue
        copy = make_copy()
        t0 = time.time()
        try:
            if "patch" in m:
                pr = subprocess.run(["patch", "-p1", "-i", os.path.join(HOME, "mutants", m["patch"])], cwd=copy, capture_output=True, text=True)
                if pr.returncode != 0:
                    results.append({"name": m["name"], "status": "patch-failed", "out": pr.stdout[-300:]})
                    print(m["name"], "PATCH FAILED", pr.stdout[-300:])
                    continue
            else:
                edits = m.get("edits") or [m]
                ok = True
                for e in edits:
                    fp = os.path.join(copy, e["file"])
                    s = open(fp).read()
                    if (e.get("first_only") or m.get("first_only")) and s.count(e["old"]) >= 1:
                        open(fp, "w").write(s.replace(e["old"], e["new"], 1))
                        continue
                    if s.count(e["old"]) != 1:
                        ok = False
                        print(m["name"], f"EDIT NOT APPLICABLE ({s.count(e['old'])} matches) in {e['file']}")
                        break
                    open(fp, "w").write(s.replace(e["old"], e["new"]))
                if not ok:
                    results.append({"name": m["name"], "status": "edit-not-applicable"})
                    continue
            tests_ok, tests_msg = (True, "skipped") if no_tests else run_tests(copy)
            env = dict(os.environ, VERIF_REPO=copy)
            env.pop("VF_SCRATCH", None)
            p = subprocess.run([os.path.join(HOME, "check"), prop, tier] + m.get("legs", []), cwd=HOME, env=env, capture_output=True, text=True, timeout=3600)
            viol = [l for l in p.stdout.splitlines() if l.startswith("VIOLATION")]
            sigs = [l.strip() for l in p.stdout.splitlines() if l.strip().startswith("leg=")]
            status = "killed" if p.returncode == 1 and viol else ("survived" if p.returncode == 0 else f"harness-exit-{p.returncode}")
            results.append({
                "name": m["name"], "note": m.get("note", ""), "tests": tests_msg, "tests_ok": tests_ok,
                "status": status, "signatures": sigs[:6], "wall_s": round(time.time() - t0, 1),
            })
            print(f"{m['name']:40s} tests={'ok' if tests_ok else 'FAIL'} check={status} {sigs[:2]}")
            if status.startswith("harness"):
                print(p.stdout[-1500:], p.stderr[-1500:])
        finally:
            shutil.rmtree(os.path.dirname(copy), ignore_errors=True)
    os.makedirs(os.path.join(HOME, "mutants", "results"), exist_ok=True)
    rp = os.path.join(HOME, "mutants", "results", f"{prop}.json")
    old = []
    if names and os.path.exists(rp):
        old = [r for r in json.load(open(rp)) if r["name"] not in {x["name"] for x in results}]
    with open(rp, "w") as f:
        json.dump(old + results, f, indent=1)
    return 0


if __name__ == "__main__":
    sys.exit(main(sys.argv[1:]))
