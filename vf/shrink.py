"""Generic JSON minimiser (ddmin over lists / dict values, scalar simplification).

``shrink(recipe, still_fails, budget)`` returns the smallest recipe found for which
``still_fails(recipe)`` is true, using at most ``budget`` evaluations (never wall time).
Candidates that make the predicate raise are treated as "does not fail".
"""
from __future__ import annotations

import copy
import json
from typing import Any, Callable


def _paths(x, pre=()):
    yield pre, x
    if isinstance(x, list):
        for i, v in enumerate(x):
            yield from _paths(v, pre + (i,))
    elif isinstance(x, dict):
        for k, v in x.items():
            yield from _paths(v, pre + (k,))


def _get(x, path):
    for p in path:
        x = x[p]
    return x


def _set(x, path, v):
    if not path:
        return v
    x = copy.deepcopy(x)
    cur = x
    for p in path[:-1]:
        cur = cur[p]
    cur[path[-1]] = v
    return x


def _simpler_scalars(v):
    if isinstance(v, bool):
        if v:
            yield False
    elif isinstance(v, int):
        if v != 0:
            yield 0
            if abs(v) > 1:
                yield v // 2
                yield v - 1 if v > 0 else v + 1
    elif isinstance(v, float):
        if v != v or v in (float("inf"), float("-inf")):
            yield 0.0
            yield 1.0
        elif v != 0.0:
            yield 0.0
            if v != 1.0:
                yield 1.0
            r = float(round(v))
            if r != v:
                yield r
    elif isinstance(v, str):
        if v:
            yield ""
            if len(v) > 1:
                yield v[: len(v) // 2]
                yield v[:-1]


def shrink(recipe: Any, still_fails: Callable[[Any], bool], budget: int = 400, strings: bool = False) -> tuple[Any, int]:
    """strings=False: string scalars are treated as enum-like tokens and left alone"""
    used = 0

    def test(c):
        nonlocal used
        if used >= budget:
            return False
        used += 1
        try:
            return bool(still_fails(c))
        except Exception:
            return False

    best = json.loads(json.dumps(recipe))
    improved = True
    while improved and used < budget:
        improved = False
        # 1. delete chunks from lists (largest lists first)
        lists = sorted(
            [(p, v) for p, v in _paths(best) if isinstance(v, list) and v],
            key=lambda pv: -len(pv[1]),
        )
        for path, lst in lists:
            try:
                lst = _get(best, path)
            except (KeyError, IndexError, TypeError):
                continue
            if not isinstance(lst, list):
                continue
            chunk = max(1, len(lst) // 2)
            while chunk >= 1 and used < budget:
                i = 0
                changed = False
                while i < len(lst) and used < budget:
                    cand_l = lst[:i] + lst[i + chunk:]
                    cand = _set(best, path, cand_l)
                    if test(cand):
                        best, lst, changed, improved = cand, cand_l, True, True
                    else:
                        i += chunk
                if chunk == 1:
                    break
                chunk = max(1, chunk // 2)
                if not changed and chunk == 1 and len(lst) > 16:
                    break
        # 2. simplify scalars
        for path, v in list(_paths(best)):
            if used >= budget:
                break
            if isinstance(v, (list, dict)) or v is None:
                continue
            try:
                cur = _get(best, path)
            except (KeyError, IndexError, TypeError):
                continue
            if isinstance(cur, str) and not strings:
                continue
            for s in _simpler_scalars(cur):
                cand = _set(best, path, s)
                if test(cand):
                    best, improved = cand, True
                    break
    return best, used
