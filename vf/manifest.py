"""Regenerates /verif/MANIFEST.json from the table below:  python -m vf.manifest"""
import json
import os

HOME = os.path.dirname(os.path.dirname(os.path.abspath(__file__)))

CHECKS = {
    "C01": dict(
        category="exploration",
        text="Hypothesis-generated molecules / ensembles (all elements, every enum member, nested attributes incl. bytes, numpy arrays and int keys, NaN/inf "
             "coordinates, 0 atoms, 0 conformers) are stored in fresh MoleculeLibrary / ConformerLibrary files with four buffer sizes and read back in-session, "
             "in a later session and through a new handle (every read is followed by an in-place edit of the result and a second read of the same key, which must again show what is stored; the Mapping views items() / values() pair every key with its own object); optionally the same objects are then edited in place and stored again under new keys (old keys keep the old state), molecules are also stored as a float32-coordinate subclass, objects may carry a parallel bond, half of their bonds reach their state by assignment after a plain connect(), attribute dictionaries may be keyed by tuples, some of their atoms may also sit in a foreign (live or dead) container, names go in through the setter (also the empty one), atom annotations are re-asserted after bonding, libraries are opened with several `encoding=` values; an independent field-by-field snapshot decides equality at float32 precision. Legacy (v1) files are "
             "additionally produced by the harness' own encoder and read through the library. A round-trip oracle over generated inputs is exactly what the "
             "input-quantified statement needs.",
        design_ref="DESIGN.md section 5, C01",
        note="Trusted: vf/chem.py snapshot/compare; enum fields compared by value; sequences compared as sequences; python floats in attributes at float32 "
             "precision and restricted to |x|<1e30.",
        technique="round-trip property testing with Hypothesis-generated structures and a field-by-field snapshot oracle",
    ),
    "C05": dict(
        category="exploration",
        text="Model-based stateful testing: generated edit histories (<=40 ops: add/new/del atom by object, index, label, Element; connect; append_bond(s)/extend_bonds "
             "with foreign atoms; del_bond; remove_substituent; add_implicit_hydrogens; substructure writes and bond deletion through a view, re-attachment of deleted atoms, atoms stolen from another molecule, parallel and self bonds (also on atoms new to the molecule), in-place charge writes, the source / a fresh clone overwritten in place, deletion by negative index, remove_substituent with atoms named as objects / indices / labels, a donor striking a stolen atom off its list, add_atom of an atom that is already there, charges first assigned from integers) are interpreted on Molecule and Structure and on an "
             "identity-keyed reference model, invariants after every step; plus ALL op sequences up to length 3/4 over a 29-letter alphabet. The statement quantifies "
             "over histories, which a model-based interpreter explores directly.",
        design_ref="DESIGN.md section 5, C05",
        note="Unique labels for by-label deletion; remove_substituent on bridge bonds only; Conformer edits are C14's.",
        technique="stateful model-based testing (Hypothesis op lists + bounded-exhaustive sequences) with per-step invariants",
    ),
    "C06": dict(
        category="exploration",
        text="Generated sources (nested mutable attributes, hydrogen hints, partial charges, 0-3 conformers) realised as each of the seven classes, copied by "
             "every route (copy constructors same/wider/narrower, pickle, deepcopy, concatenate, |, join at attachment points; sources may carry a second bond on an already bonded pair and attribute values of richer standard types; deep copies also of a container that refers into the object), then a generated mutation script is run on one side: "
             "snapshot of the other side must not change, no ndarray memory and no attribute container is shared (identity walk), the copy equals the source "
             "on the fields of the route, parents and indices are right on both; after an edit of the source a second copy by the same route must show the edited state. join's geometry is C12's.",
        design_ref="DESIGN.md section 5, C06",
        note="Cross-class construction compared on common fields; ConformerEnsemble(Molecule) coordinates left to C14; partial charges of a concatenation not asserted.",
        technique="metamorphic / differential property testing: snapshot-before vs snapshot-after under generated mutation scripts, identity walk for sharing",
    ),
    "C07": dict(
        category="exploration",
        text="Exhaustive vocabulary leg: every Element x AtomType x AtomGeom (44 982 on this tree) as a one-atom molecule and every BondType on a two-atom "
             "molecule is written, must be accepted by the reader with the element recovered, and the second write must reproduce the text. Random leg: generated "
             "Molecule / Structure / Substructure-view / ConformerEnsemble objects round-trip field by field at the written precision through loads / loads_all / load(stream) / "
             "ConformerEnsemble.loads_mol2, plus the text fixed point, a second write after an in-place edit (incl. an atom replaced at constant atom count), objects that were themselves read from another program's mol2 flavour (other header types) before their charges were assigned, and texts beyond 1 MiB / 4 MiB.",
        design_ref="DESIGN.md section 5, C07",
        note="Labels whitespace-free; names one stripped line; |x|<1e5; isotopes / formal charges / stereo / attributes are not expressible in mol2 and not compared.",
        technique="round-trip + fixed-point property testing; exhaustive enumeration of the emitted token vocabulary",
    ),
    "C08": dict(
        category="exploration",
        text="Round-trip legs over generated geometries, 1-5 frame ensembles and multi-molecule xyz texts (consecutive frames of equal size and different elements) through every xyz loader entry point (also one open handle read piecemeal or positioned at a later geometry, and ensembles written through ml.dump(path, mode w / a)) (count, order, elements, coordinates at "
             "the written precision incl. texts beyond 1 MiB / 4 MiB, blank and non-ASCII names, names that read like unit words (Au-..., bohr, a.u.), ensembles that grow between two writes, Substructure views, the dump_xyz(fmt=...) option with 3-12 decimals and scientific formats, second write identical, second write after an in-place edit follows the edit); metamorphic unit leg: the same Angstrom geometry expressed in each DistanceUnit member with the "
             "physical factor held by the harness (CODATA), read with source_units through xyz and mol2 single / load_all / ensemble loaders, pairwise distances "
             "compared with the Angstrom original.",
        design_ref="DESIGN.md section 5, C08",
        note="xyz has no names / charges / bonds; unit tolerance 1e-5 relative because molli's Bohr entry has 6 digits.",
        technique="round-trip + metamorphic (unit re-expression) property testing with Hypothesis",
    ),
    "C09": dict(
        category="exploration",
        text="The configuration matrix {load, loads, load_all, loads_all, dump, dumps} x formats {xyz, mol2, cdxml, obabel-only, nonsense} x source/target kind "
             "{str path, Path, string, open stream} x fmt {explicit, from suffix} x otype {'molecule','ensemble', Structure, Molecule, ConformerEnsemble} x name {given (identifier-like or with punctuation), not} "
             "x mode {a, w} x writer options {none, write_header, unknown option} x cdxml retrieval key {none, first / last label, unknown label, positional, empty} x stream kind {StringIO, real file, tempfile wrapper, codecs writer, plain object with write()} x path alias {symbolic link, hard link} x non-regular source path {/dev/fd pipe} is enumerated completely on bundled files and sampled on generated single / multi-frame inputs, also with an unclean END of the file (cut inside a later structure, blank lines, a stray line: whatever the class methods make of it, the entry points make the same); a history leg re-uses one path with new contents (load, rewrite, load again). Differential oracle: same type and snapshot as the "
             "class method (cdxml totals additionally against the sum of the drawn charges / radicals), list where promised, name honoured, text in the caller's stream which stays open, no leaked descriptor, ValueError for unsupported formats.",
        design_ref="DESIGN.md section 5, C09",
        note="openbabel cells cannot run (skipped, counted); cdxml compared on constitution only; loads_all for ensembles has no class-level counterpart.",
        technique="exhaustive configuration-matrix enumeration + differential testing against class-level codecs",
    ),
    "C10": dict(
        category="fault_enumeration",
        text="Every truncation point (all line boundaries + every byte of the last record) of 10 bundled files and of generated multi-molecule files whose molecules "
             "differ in atom and bond counts (optionally with unimplemented record blocks, or a UNITY_ATOM_ATTR block after the bonds); random line deletions / duplications, token faults that make a token invalid for its field, serial renumbering, single bytes that are no text (file read through the path readers), bond endpoints changed to another valid atom number (counts clause only), damaged ATOM / BOND tag lines, numbers that are no integers in count columns, a file that only lost its final line terminator; plus atheris/libFuzzer "
             "campaigns that decode fuzz bytes into (file, fault sequence incl. arbitrary byte cuts). Oracle: the reader raises, or every returned molecule has the counts of "
             "its own header in the damaged text and the content of the molecule at that position in the undamaged file; a 60 s alarm decides termination.",
        design_ref="DESIGN.md section 5, C10",
        note="Undetectable damage (swapped lines, digit -> digit, free-text fields, optional trailing fields) is outside the fault model; the format-inherent class 'cut inside the "
             "final numeric token leaving a valid number' is a recorded known finding, excluded by construction and counted.",
        technique="exhaustive fault (truncation) enumeration + random fault injection + coverage-guided structured fuzzing (atheris) with a differential/self-consistency oracle",
    ),
    "C11": dict(
        category="exploration",
        text="Six generated-input legs: rotation_matrix_from_vectors (general, parallel, antiparallel neighbourhood eps in {0} U 1e-12..1e-3, three tol values, perturbed "
             "np.random state) and rotation_matrix_from_axis against their algebraic definition (the caller's arrays must be left as they were, and a result the caller scribbles on must not come back on the next request); ten rigid-motion operations on molecules / ensembles / substructures (the parent may lose or gain an atom between selection and edit) "
             "(distance matrix, signed volumes, documented effect); rotate_dihedral on every suitable bridge bond of 8 bundled files (exhaustive) and of generated graphs (also after the molecule was queried and re-wired in place); transform() with its validate flag; "
             "align_to_ref_coords (also against a reference that is a live view of the aligned ensemble itself) with two harness Kabsch variants (plain and internally centring, as the molli align wrappers), two index-set orders, two initial poses.",
        design_ref="DESIGN.md section 5, C11",
        note="Numerical tolerances 1e-6 (constructed matrices) / 1e-9 relative (rigid motions); collinear dihedral triples excluded; reference geometry centred as every caller does.",
        technique="property-based testing against algebraic definitions + metamorphic pose-independence relation",
    ),
    "C12": dict(
        category="exploration",
        text="Constructed 3-D fragments (jittered lattice, random tree + ring closures, attachment point with any bond type, random rigid pose; also exactly parallel / "
             "antiparallel / z-aligned attachment vectors; attachment bonds of independently drawn length) are joined with generated options (dist, optimize_rotation, charge incl. 0 / mult / name / bond overrides) through "
             "Molecule.join, Structure.join and a single-precision Molecule subclass (B may be a linker with a second attachment point; fragments may come with non-bonded atoms), and iteratively on multi-attachment cores (all or a subset of the attachment points) exactly as molli combine does, with the real "
             "molli.scripts.combine._ml_assemble compared against the stepwise product (a combination with a defective substituent must yield no product), and end to end through molli.scripts.combine.molli_main on generated core / substituent libraries in every mode (attachment point labels out of atom order) with a structural oracle per product; attachment atoms may sit at index 0 and be untyped terminal atoms. Oracle: atom and bond transfer field by field, new bond "
             "type, proper rigid fit of each fragment (own Kabsch, mirror detected separately), bond length, frame-free bond-direction test from both fragments, charge / "
             "multiplicity, bit-identical coordinates under two np.random states, sources unchanged, nothing shared; a second join after in-place edits of both fragments (A also loses an atom) is judged the same way.",
        design_ref="DESIGN.md section 5, C12",
        note="Rotamer about the new bond not prescribed under optimize_rotation; partial charges of the product not asserted; combine.py's loop restated (openbabel import).",
        technique="property-based testing with constructive 3-D fragment generators and an independent geometric oracle",
    ),
    "C13": dict(
        category="exploration",
        text="Every labelled fragment of the 7 bundled .cdxml files (exhaustive) and of generated variants (top-level objects permuted, page translated, ids renumbered (also to small numbers that coincide with atomic numbers), a bond-less fragment stored first on the page, "
             "<n> children permuted, each with its wedge<->hash mirrored twin) is parsed and compared with an independent ElementTree walk of the same file "
             "(attributed-graph isomorphism incl. isotopes, charges, radicals, attachment points, hydrogen hints, bond types, hapto expansion, nested fragments), total charge / "
             "multiplicity, two parses under different np.random states, the same label asked again after the caller edited the first result, label -> fragment resolution, the other labels parsed before and after a request for a deliberately damaged fragment failed, centre-level handedness inversion under mirroring, and an absolute "
             "handedness oracle computed from the drawing alone for unambiguous centres. A third leg writes NEW drawings as minimal CDXML (rings / chains with substituents, every node and bond attribute the parser reads, labels placed under their fragments) "
             "and applies the same oracle; the 3-D clauses only to fragments with a single stereo mark (the quantifier names the bundled files and their variants).",
        design_ref="DESIGN.md section 5, C13",
        note="Atoms bonded to hapto centres excluded from handedness; a label drawn twice names what its first occurrence names (molli's warning text), and is skipped under object permutation; "
             "stereo clauses asserted on bundled drawings, their structure-preserving variants, and single-mark new drawings.",
        technique="metamorphic testing (mirror / permutation / translation / renumbering) + differential testing against an independent parser",
    ),
    "C14": dict(
        category="exploration",
        text="Model-based stateful testing: ensembles built through seven constructor routes, then generated op lists (append of Molecule / Structure / CartesianGeometry, extend "
             "by list / ensemble / iterator, scale, translate 1-D/2-D, rotate by one matrix or by one matrix per conformer, writes through ens[i], five iteration patterns incl. nested / interleaved / zip, slices, "
             "conformer handles kept and used after later growth, rows addressed by negative index, writes through out-of-range locators (must not land in any existing row), the ensemble's own conformers appended by positive / negative index, rotation stacks of the wrong length, per-conformer and ensemble-level dumps read back (coordinates, charges, name), frames collected into a blank ensemble, serialisation via v2 codec / pickle / library) are interpreted on the ensemble and on three numpy arrays; rectangularity and "
             "view consistency are checked after every step, and every geometry or ensemble that was handed in must stay untouched.",
        design_ref="DESIGN.md section 5, C14",
        note="Appended geometries have the ensemble's atom count; a new conformer's weight may be any real number; ConformerEnsemble(molecule) coordinate values not asserted.",
        technique="stateful model-based testing (Hypothesis op lists) against a numpy reference model",
    ),
    "C15": dict(
        category="exploration",
        text="Exhaustive leg: all labelled simple graphs on <=5 (quick) / <=6 (thorough) atoms with every start atom, every (start, neighbour) direction and every bond; random leg: "
             "generated forests with ring closures up to 40 atoms as Connectivity / Molecule / ConformerEnsemble / Substructure view of a bigger molecule, atoms named to the API as objects, integer indices, labels or Elements; FractionalOrder bonds; bond types as members or plain integers; matching leg: patterns cut from the source (wildcard, own bond "
             "types, absent; source and pattern atoms carry unrelated atom types; bonds of every BondType member; connected and two-piece patterns; mappings collected before they are looked at; the ring test asked with an equal bond object; query - in-place edit - query again; match() with one keyword callback at a time). References written for this harness: BFS distances, low-link bridge finder (cross-checked with networkx), backtracking induced-embedding search; the "
             "SET of returned mappings must equal the reference set.",
        design_ref="DESIGN.md section 5, C15",
        note="_edge_match's type rules beyond the statement are only exercised where every rule is satisfied.",
        technique="bounded-exhaustive enumeration + random graph generation against independent reference algorithms",
    ),
    "C16": dict(
        category="exploration",
        text="Molecules grown atom by atom from tetrahedral / trigonal templates (non-degenerate by construction; target neighbour-count class drawn first; formal charges, "
             "radicals, multiple / aromatic bonds, hints, metal / halogen bystanders, neighbours flagged as coordination centres, atoms that were another element first; random, as-built and exactly-z-aligned orientations) and every labelled fragment of the bundled "
             "CDXML files go through add_implicit_hydrogens. Oracle: before/after snapshots (atoms, bonds, coordinates, charges untouched), every new atom is a singly bonded H on a "
             "group 13-16 atom, per-centre count from the harness' own valence table or the hint, X-H distance, finite coordinates, direction away from the neighbour centroid, "
             "idempotence on hint-free molecules; molecule-level charge / multiplicity / name / attributes unchanged; the named-atoms call form touches only the named atoms. The (neighbours x hydrogens) class histogram is reported.",
        design_ref="DESIGN.md section 5, C16",
        note="Collinear neighbour pairs are not generated; direction not asserted for centres bonded to CoordinationCenter atoms (ignored by the placement code on purpose); hints <= free valence.",
        technique="property-based testing with a class-directed constructive generator and an independent valence calculation",
    ),
    "C17": dict(
        category="fault_enumeration",
        text="Binding: ALL sequences of <=3/<=4 job accesses over three driver instances x {single, vectorised job} x {used at once, handle kept and used later}, plus in-place reconfiguration of a driver, for a harness "
             "DriverBase subclass and for XTBDriver; the prepared JobInput must carry that driver's executable / nprocs / environment. Execution: generated JobInputs (1-4 sh commands, "
             "first failing command at every position, text / binary files incl. CR LF and NUL bytes, output texts with significant whitespace inside quoted arguments, env override (also of PATH, programs named without a directory) vs inherited, every return-file plan incl. files that exist and are empty) run by run_local() in a forked "
             "child and by the real _molli_run; oracle from marker files written by the commands themselves: order and stop-at-first-failure, private directory under scratch with exactly "
             "the input files byte for byte, environment, captured stdout/stderr, returned files, input hash, exit status iff, no scratch residue.",
        design_ref="DESIGN.md section 5, C17",
        note="External programs are /bin/sh scripts; zero-command jobs and duplicate command names are outside the claim.",
        technique="exhaustive enumeration of access orders + fault-position enumeration over generated job specifications with an external-marker oracle",
    ),
    "C18": dict(
        category="fault_enumeration",
        text="Generated histories of 2-4 real jobmap runs (every job a _molli_run launch of a /bin/sh script that reads a per-item plan - ok / ok with an empty return file / fail / ok on the n-th attempt / omit "
             "the return file - and bumps a per-item execution counter) over small molecule and conformer libraries, with argument changes (new hash), pre-populated and foreign "
             "destination keys, cache deletion / pollution with another input's output, fresh destinations on an old cache, strict and stdout-only post-processors, strict_hash on / off, log level critical / info / debug, job arguments by keyword or positionally, runs in a new interpreter process (other string-hash seed), single and "
             "vectorised jobs, jobs declared with job-level envars (reduce steps that consume every per-conformer result or only the first). A model of (destination, cache, counters) predicts after every run exactly which units execute and exactly what the destination holds.",
        design_ref="DESIGN.md section 5, C18",
        note="jobmap_sge (needs qsub) and worker() are not exercised; success = all commands exit 0 and the return file exists.",
        technique="stateful model-based testing of run histories with scripted per-item faults and externally observed execution counters",
    ),
    "C19": dict(
        category="exploration",
        text="Five generated-input legs on the shipped extension and the Python descriptors (12 kernel names x float widths x five memory layouts x shapes incl. empty vs. a float64 numpy "
             "reference; rectangular_grid lattice / spacing / containment / centring / count; nearest_atom_index with the cut-off passed, for ensembles and single geometries (2-40 atoms), asked again after the same objects were moved in place, structures of 33000-66000 atoms; prune bounds likewise; grid dtype option; "
             "aso / aeif (weighted / unweighted, conformer weights that may be exactly zero, an allocation failure injected into the distance kernel, ensembles of 70-257 conformers, an isomer of the same composition evaluated first) vs. the van-der-Waals-sphere definition with the float32 rounding band excluded and counted) plus a native leg: molli_xt/distance.cpp of the working tree is "
             "compiled with clang++ under ASan + UBSan + libFuzzer against a header shim standing in for pybind11, and every registered name is fuzzed with the oracle inside the target.",
        design_ref="DESIGN.md section 5, C19",
        note="The shipped .so cannot be rebuilt (pybind11 absent): an edit to the C++ kernels is seen by the native leg only, an edit to pybind11-level dispatch only after a rebuild. "
             "Known finding: generic names compute non-contiguous float64 input in float32.",
        technique="differential property testing against numpy float64 + coverage-guided sanitizer fuzzing (libFuzzer) of the C++ kernels with an in-target oracle",
    ),
    "C02": dict(
        category="exploration",
        text="Bounded-exhaustive (all op sequences up to length 4/5 over an 18-letter alphabet on two raw UKVFile handles) plus random "
             "model-based histories on raw handles and on Collection sessions with stale handles and four buffer sizes, each compared "
             "step by step with an insertion-ordered reference map; raw histories also contain puts whose stream write fails (injected OSError / MemoryError / KeyboardInterrupt / str value) and handle objects that are pickled / copied / deep-copied with the copy opened, listed and closed; Collection histories contain puts inside reading() on unbuffered handles (must fail and leave the listing alone; readonly collections refuse every put whatever their buffer) and write sessions left through an exception of the caller's own (the puts that succeeded stay stored); comments / descriptor blocks with edge whitespace must be preserved. Exploration is the right level: the claim is over histories, and "
             "a reference model decides every step; no absence proof is claimed beyond the enumerated bound.",
        design_ref="DESIGN.md section 5, C02",
        note="Trusted: the reference model in vf/props/c02.py; at most one raw writer at a time; mode 'w' only creates; python file "
             "buffering as on this platform.",
        technique="model-based property testing: bounded-exhaustive + Hypothesis-generated op histories vs. reference dict",
    ),
    "C03": dict(
        category="fault_enumeration",
        text="For each generated (committed records, append session, recovery session) the write stream of the session is recorded and EVERY byte "
             "prefix of it is materialised as a crash image (exhaustive per session); each image is reopened read-only (keys / get and the bulk views items / values), the session is alternatively INTERRUPTED (KeyboardInterrupt out of a stream write, orderly wind-down with records still queued), reopened for append with "
             "recovery puts (incl. re-using the torn key; every record is also read inside the recovery session), crashed a second time at every byte of the recovery stream, and taken through the same recovery by ONE long-lived handle / Collection object (re-used across sessions, optionally already used before the crash image appeared, with or without a reading use in between). Oracle: committed records exact, "
             "session records all-or-nothing, nothing foreign listed; record names may be multi-byte UTF-8, values may be all zero bytes. Fault enumeration over crash points is exactly the property's quantifier.",
        design_ref="DESIGN.md section 5, C03",
        note="Crash model = prefix of the bytes handed to the file object in call order (no reordering below the file API; if the recorded writes do not reproduce the file, the bytes that differ are taken to appear in file order); torn file header excluded; "
             "records > 8 kB (up to just over 1 MiB, thorough 4 MiB) are sampled (every 16th..65536th offset + all offsets near field boundaries), not exhaustive.",
        technique="exhaustive crash-point enumeration over Hypothesis-generated sessions, all-or-nothing oracle",
    ),
    "C04": dict(
        category="fault_enumeration",
        text="(a) harness-owned schedules: all sequences of <=2/<=3 sessions over 19 kinds (a caught mid-session flush error on a small-buffer handle, a writing session that first reads an existing record, a record under the empty key, another process killed in mid-append between two sessions among them; 12 failing, faults injected at body (Exception, KeyboardInterrupt, SystemExit) / encoder / flush-time "
             "backend write / stream write inside UKVFile.put / end_write / end_read / begin_write / begin_read) on handles living in three processes, with a lock probe from a fresh process after every session; "
             "(b) a handle constructor of another process held (harness-owned gate) right before its first lock acquisition while this process creates the library and completes sessions; (c) another process sitting inside a session (gate) while this one asks with timeout 0 / 0.0 / 0.05 / 0.3: TimeoutError, never an entered session - also when the holder unpickles / deep-copies an idle handle of the same library inside its session, or a third process that constructed a handle earlier exits normally meanwhile, the holder lets go of another handle whose last request had timed out, or names the library by a relative path after a chdir; (d) handles pickled and unpickled after they were used; (e) real 8-16 process schedules with private scratch directories per process, the processes reaching the library through three spellings of its path (plain, sub/.., symlinked directory), with random delays whose oracle (timestamps taken inside the protected body, hand-over after failing sessions) "
             "cannot misfire on correct locking. Real interleavings are sampled, only session-granular schedules are exhaustive.",
        design_ref="DESIGN.md section 5, C04",
        note="Threads sharing a handle and nested same-process sessions are outside the claim; CLOCK_MONOTONIC is system-wide on Linux; fault injection by "
             "replacing bound methods on backend instances.",
        technique="fault-injection enumeration of session sequences + randomized multi-process schedules with interval-overlap oracle",
    ),
}

PENDING_REASON = "check under construction in this session; not claimed until its harness is committed"


def main():
    props = [json.loads(l) for l in open(os.path.join(HOME, "properties.jsonl"))]
    checks = []
    na = []
    for p in props:
        pid = p["id"]
        c = CHECKS.get(pid)
        if c is None:
            na.append({"property_id": pid, "reason": PENDING_REASON})
            continue
        checks.append({
            "property_id": pid,
            "quick_cmd": f"./check {pid} quick",
            "thorough_cmd": f"./check {pid} thorough",
            "evidence_file": f"evidence/{pid}.json",
            "replay_cmd_template": "./check --replay {path}",
            "engine": "vf",
            "level_claimed": {"category": c["category"], "text": c["text"], "design_ref": c["design_ref"]},
            "level_note": c["note"],
            "technique": c["technique"],
        })
    man = {
        "version": 1,
        "setup_cmd": "sh ./setup.sh",
        "hooks": {
            "guard": "MOLLI_VERIF",
            "enable": "no instrumentation is compiled into /repo; checks import the working tree directly (PYTHONPATH=/repo) and attach recorders / fault injectors to instances from the harness",
            "baseline_off_cmd": "cd /repo && /venv/bin/python -m pytest -ra -q -p no:cacheprovider --timeout=900 --continue-on-collection-errors",
            "source_commits": [],
            "add_only": True,
        },
        "engines": [
            {"name": "vf", "path": "vf/", "serves_properties": [c["property_id"] for c in checks],
             "kind_free_text": "property-based testing / fuzzing harness: Hypothesis strategies + bounded-exhaustive enumerators producing JSON recipes, pure oracle functions, 16-process runner, JSON ddmin shrinker, replay files"},
        ],
        "checks": checks,
        "notes": "Every check: ./check <ID> quick|thorough; VERIF_SEED seeds Hypothesis (seed*1000+shard); exit 0/1/2 = held / VIOLATION / harness error. known_findings.json lists genuine defects fixed (fixed:) or recorded (known:).",
        "not_applicable": na,
    }
    with open(os.path.join(HOME, "MANIFEST.json"), "w") as f:
        json.dump(man, f, indent=1)
    print(f"{len(checks)} checks, {len(na)} not claimed")


if __name__ == "__main__":
    main()
