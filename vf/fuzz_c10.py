"""atheris (libFuzzer) target for C10: bytes -> (corpus file, fault list) -> readers -> oracle of vf.props.c10.
Usage: python -m vf.fuzz_c10 <violation_out.json> [libFuzzer flags] <corpus dir>"""
import json
import os
import sys

import atheris

from vf import run as _run

_run.setup_env()
with atheris.instrument_imports(include=["molli.parsing", "molli.chem.structure", "molli.chem.geometry", "molli.chem.molecule", "molli.chem.atom", "molli.chem.bond"]):
    import molli  # noqa
from vf.props import c10  # noqa

OUT = sys.argv[1]
SRCS = [{"fmt": "mol2", "file": f} for f in ("dummy_mol2", "dmf_mol2", "pentane_confs_mol2", "isornitrate_mol2")] + [{"fmt": "xyz", "file": f} for f in ("dummy_xyz", "pentane_confs_xyz")] + [
    {"fmt": fmt, "mols": [
        {"name": "a", "charge": 0, "mult": 1, "attrib": {}, "atoms": [{"el": e, "iso": None, "label": None, "atype": 1, "stereo": 0, "geom": 0, "fc": 0, "fs": 0, "attrib": {}} for e in els],
         "coords": [[0.1 * i, 1.0 + i, -0.5 * i] for i in range(len(els))], "charges": [0.01 * i for i in range(len(els))],
         "bonds": [{"a": i, "b": i + 1, "label": None, "btype": 1, "stereo": 0, "f_order": 1.0, "attrib": {}} for i in range(nb)]}
        for els, nb in (((6, 8, 1), 2), ((7,), 0), ((6, 17, 35, 14, 11, 1), 3))]}
    for fmt in ("mol2", "xyz")
]
_cache = {}
COUNT = [0]


def TestOneInput(data):
    fdp = atheris.FuzzedDataProvider(data)
    si = fdp.ConsumeIntInRange(0, len(SRCS) - 1)
    src = SRCS[si]
    if si not in _cache:
        fmt, text = c10.corpus_text(src)
        _cache[si] = (fmt, text, c10._orig(fmt, text))
    fmt, text, snaps = _cache[si]
    nf = fdp.ConsumeIntInRange(1, 2)      # single or double faults of one kind, as in the `faults` leg (three deletions can merge two xyz frames into a well-formed third)
    damaged = text
    faults = []
    del_in_uncounted = False
    for _ in range(nf):
        k = fdp.ConsumeIntInRange(0, 6)
        if k == 0:
            cut = fdp.ConsumeIntInRange(1, max(1, len(damaged) - 1))
            if c10._numeric_tail_cut(damaged, cut) or any(f[0] != "cut" for f in faults):
                continue
            faults.append(["cut", cut])
            damaged = damaged[:cut]
            continue
        fault = [["del", [fdp.ConsumeIntInRange(0, 4000)]], ["dup", [fdp.ConsumeIntInRange(0, 4000)]], ["tok_bad", fdp.ConsumeIntInRange(0, 4000), fdp.ConsumeIntInRange(0, 9)],
                 ["tok_del", fdp.ConsumeIntInRange(0, 4000), 0], ["tok_ins", fdp.ConsumeIntInRange(0, 4000), 0], ["renumber", fdp.ConsumeIntInRange(0, 4000), fdp.ConsumeIntInRange(0, 1)]][k - 1]
        if any(f[0] != fault[0] for f in faults):
            # faults of different kinds can cancel into a SUBSTITUTION (delete one record line + duplicate another, cut the last line +
            # duplicate another, delete a token + insert one: every count is kept and the file is well-formed with other content):
            # no count-based reader can notice - outside the fault model.  A sequence consists of faults of ONE kind.
            continue
        if fault[0] in ("del", "dup") and faults:
            # second deletion / duplication: not inside an uncounted block when the first one was (a complete record of such a block
            # could vanish or appear)
            ls_ = damaged.splitlines()
            unc = c10.uncounted_lines(fmt, ls_)
            if unc and (fault[1][0] % len(ls_)) in unc and del_in_uncounted:
                continue
        d2 = c10.apply_fault(fmt, damaged, fault)
        if d2 is None:
            continue
        if fault[0] in ("del", "dup"):
            ls_ = damaged.splitlines()
            if (fault[1][0] % len(ls_)) in c10.uncounted_lines(fmt, ls_):
                del_in_uncounted = True
        faults.append(fault)
        damaged = d2
    COUNT[0] += 1
    if not faults or damaged.split() == text.split() or not damaged.strip():
        return
    if any(f[0] == "cut" for f in faults) and damaged.rstrip() == text.rstrip():
        return
    kind, f = c10.judge(fmt, snaps, damaged, "fuzz")
    if f is not None:
        with open(OUT, "w") as fh:
            json.dump({"src": src, "faults": faults, "sig": f.sig, "detail": f.detail, "damaged": damaged[-2000:]}, fh)
        raise RuntimeError("C10 oracle violated: " + f.sig)


if __name__ == "__main__":
    atheris.Setup([sys.argv[0]] + sys.argv[2:], TestOneInput)
    atheris.Fuzz()
