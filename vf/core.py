"""Shared machinery: legs, recorders, hashing, signatures.

A *leg* is one generated-input search: a generator of JSON-able recipes (a Hypothesis
strategy or an enumerator), a pure ``check(recipe) -> [Fail]`` oracle, and a
``classify(recipe) -> (nontrivial, labels)`` rule.  Nothing here imports molli.
"""
from __future__ import annotations

import hashlib
import json
import os
import sys
import traceback
from collections import Counter
from dataclasses import dataclass, field
from typing import Any, Callable, Iterable, Iterator


class HarnessError(Exception):
    """Raised when the harness itself cannot proceed (exit 2, never a violation)."""


@dataclass
class Fail:
    sig: str          # root-cause key: "<kind>:<discriminating detail>"
    detail: str = ""  # human-readable explanation of this particular instance
    recipe: Any = None  # optional narrower recipe reproducing just this failure


class _Tally:
    """Lets a check that explores many sub-cases per recipe (all crash offsets of a session,
    all cells of a matrix) report them: units -> evaluations, keys -> distinct non-trivial."""

    def __init__(self):
        self.reset()

    def reset(self):
        self.units = 0
        self.keys: list[str] = []
        self.labels: Counter = Counter()

    def __call__(self, units: int = 0, nontrivial_keys: Iterable = (), labels: dict | None = None):
        self.units += units
        for k in nontrivial_keys:
            self.keys.append(hashlib.blake2b(repr(k).encode(), digest_size=8).hexdigest())
        if labels:
            self.labels.update(labels)


tally = _Tally()


@dataclass
class Leg:
    name: str
    check: Callable[[Any], list[Fail]]
    classify: Callable[[Any], tuple[bool, list[str]]]
    strategy: Callable[[str], Any] | None = None     # tier -> hypothesis strategy
    enumerate: Callable[[str, int, int], Iterator[Any]] | None = None  # tier, shard, nshards
    n: dict = field(default_factory=lambda: {"quick": 200, "thorough": 2000})
    shards: dict = field(default_factory=lambda: {"quick": 8, "thorough": 16})
    exhaustive: bool = False
    rule: str = ""
    timeout: dict = field(default_factory=lambda: {"quick": 600, "thorough": 7200})
    # known-finding classes excluded by construction are counted through the label
    # "excluded_known:<what>" returned by classify


def canon(recipe: Any) -> str:
    return json.dumps(recipe, sort_keys=True, separators=(",", ":"), default=_default)


def _default(o):
    if isinstance(o, bytes):
        return {"__b": o.hex()}
    if isinstance(o, (set, frozenset)):
        return sorted(o)
    if isinstance(o, tuple):
        return list(o)
    try:
        import numpy as np

        if isinstance(o, np.generic):
            return o.item()
        if isinstance(o, np.ndarray):
            return o.tolist()
    except Exception:
        pass
    return repr(o)


def rhash(recipe: Any) -> str:
    return hashlib.blake2b(canon(recipe).encode(), digest_size=8).hexdigest()


def abbreviate(recipe: Any, limit: int = 600) -> Any:
    s = canon(recipe)
    if len(s) <= limit:
        return json.loads(s)
    return {"abbreviated": s[:limit] + "...", "len": len(s)}


def repo_dir() -> str:
    return os.environ.get("VERIF_REPO", "/repo")


def _molli_frame(tb) -> str | None:
    """innermost traceback frame that lies in the code under test"""
    rd = os.path.realpath(repo_dir())
    best = None
    for fs in traceback.extract_tb(tb):
        fn = os.path.realpath(fs.filename)
        if fn.startswith(rd + os.sep) or "/molli/" in fn or "molli_xt" in fn:
            best = f"{os.path.basename(fs.filename)}:{fs.name}"
    return best


def exc_sig(e: BaseException) -> str | None:
    """Signature of an exception escaping from the code under test (None: harness bug)."""
    fr = _molli_frame(e.__traceback__)
    if fr is None:
        return None
    return f"exception:{type(e).__name__}@{fr}"


class Recorder:
    """Per-worker accumulator; merged by the parent."""

    MAX_SAMPLES = 6

    def __init__(self, leg: str):
        self.leg = leg
        self.evaluations = 0
        self.nontrivial: set[str] = set()
        self.classes: Counter = Counter()
        self.samples: list = []
        self.fails: dict[str, dict] = {}   # sig -> {size, recipe, detail, count}
        self.harness_errors: list[str] = []

    def handle(self, leg: Leg, recipe: Any):
        self.evaluations += 1
        try:
            nt, labels = leg.classify(recipe)
        except Exception:
            self.harness_errors.append("classify: " + traceback.format_exc(limit=6))
            return
        for lb in labels:
            self.classes[lb] += 1
        if nt:
            h = rhash(recipe)
            if h not in self.nontrivial:
                self.nontrivial.add(h)
                if len(self.samples) < self.MAX_SAMPLES:
                    self.samples.append(abbreviate(recipe))
        tally.reset()
        try:
            fails = leg.check(recipe)
        except HarnessError:
            self.harness_errors.append(traceback.format_exc(limit=8))
            return
        except BaseException as e:  # noqa
            if isinstance(e, (KeyboardInterrupt, SystemExit)):
                raise
            sig = exc_sig(e)
            if sig is None:
                self.harness_errors.append(traceback.format_exc(limit=12))
                return
            fails = [Fail(sig, "".join(traceback.format_exception_only(type(e), e)).strip()[:400])]
        self.evaluations += tally.units
        if tally.keys and not nt and len(self.samples) < self.MAX_SAMPLES:
            self.samples.append(abbreviate(recipe))   # the recipe's sub-cases were the non-trivial units
        self.nontrivial.update(tally.keys)
        self.classes.update(tally.labels)
        for f in fails or ():
            self.add_fail(f, f.recipe if f.recipe is not None else recipe)

    def add_fail(self, f: Fail, recipe: Any):
        size = len(canon(recipe))
        cur = self.fails.get(f.sig)
        if cur is None:
            self.fails[f.sig] = {"size": size, "recipe": json.loads(canon(recipe)), "detail": f.detail, "count": 1}
        else:
            cur["count"] += 1
            if size < cur["size"]:
                cur.update(size=size, recipe=json.loads(canon(recipe)), detail=f.detail)

    def export(self) -> dict:
        return {
            "leg": self.leg,
            "evaluations": self.evaluations,
            "nontrivial": sorted(self.nontrivial),
            "classes": dict(self.classes),
            "samples": self.samples,
            "fails": self.fails,
            "harness_errors": self.harness_errors[:5],
        }


def run_leg_shard(leg: Leg, tier: str, seed: int, shard: int, nshards: int) -> dict:
    rec = Recorder(leg.name)
    if leg.enumerate is not None:
        for recipe in leg.enumerate(tier, shard, nshards):
            rec.handle(leg, recipe)
    if leg.strategy is not None:
        import hypothesis
        from hypothesis import HealthCheck, Phase, given, settings

        n_total = leg.n[tier]
        n = n_total // nshards + (1 if shard < n_total % nshards else 0)
        if n > 0:
            strat = leg.strategy(tier)

            # Hypothesis always starts with the minimal example of the strategy: only shard 0 keeps it,
            # the other shards draw one more example and skip their first one.
            skip_first = [shard > 0]

            @hypothesis.seed(seed * 1000 + shard)
            @settings(
                max_examples=n + (1 if shard > 0 else 0),
                database=None,
                deadline=None,
                derandomize=False,
                report_multiple_bugs=False,
                phases=[Phase.generate],
                suppress_health_check=list(HealthCheck),
            )
            @given(strat)
            def _t(recipe):
                if skip_first[0]:
                    skip_first[0] = False
                    return
                rec.handle(leg, recipe)

            _t()
    return rec.export()
