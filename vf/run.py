"""Runner:  python -m vf.run <ID> [quick|thorough]  |  --replay <file>

exit 0  property held on everything explored (KNOWN-FINDING lines allowed)
exit 1  VIOLATION property=<id> replay=<path>
exit 2  harness error (never a violation)
"""
from __future__ import annotations

import atexit
import importlib
import json
import os
import re
import shutil
import sys
import tempfile
import time
import traceback
from collections import Counter
from concurrent.futures import ProcessPoolExecutor, as_completed
from concurrent.futures.process import BrokenProcessPool

HOME = os.environ.get("VERIF_HOME") or os.path.dirname(os.path.dirname(os.path.abspath(__file__)))
NCPU = int(os.environ.get("VERIF_JOBS", "0")) or min(16, os.cpu_count() or 4)


def _scratch_base() -> str:
    for cand in ("/dev/shm", os.environ.get("TMPDIR"), tempfile.gettempdir()):
        if cand and os.path.isdir(cand) and os.access(cand, os.W_OK):
            return tempfile.mkdtemp(prefix="vf-", dir=cand)
    raise SystemExit(2)


def setup_env() -> str:
    """Private scratch + MOLLI_HOME, repo working tree first on sys.path. Called in the
    parent before any molli import; workers inherit through the environment."""
    base = os.environ.get("VF_SCRATCH")
    if not base:
        base = _scratch_base()
        os.environ["VF_SCRATCH"] = base
        os.environ["VF_SCRATCH_OWNER"] = str(os.getpid())
        atexit.register(_cleanup, base, os.getpid())
    os.environ["MOLLI_HOME"] = os.path.join(base, "molli_home")
    os.makedirs(os.environ["MOLLI_HOME"], exist_ok=True)
    repo = os.environ.get("VERIF_REPO", "/repo")
    pp = [repo, HOME, os.path.join(HOME, ".deps")]
    os.environ["PYTHONPATH"] = os.pathsep.join(pp + [p for p in os.environ.get("PYTHONPATH", "").split(os.pathsep) if p and p not in pp])
    for p in reversed(pp):
        if p in sys.path:
            sys.path.remove(p)
        sys.path.insert(0, p)
    os.environ.setdefault("OMP_NUM_THREADS", "1")
    os.environ.setdefault("OPENBLAS_NUM_THREADS", "1")
    return base


def _cleanup(base, owner):
    if os.getpid() == owner:
        shutil.rmtree(base, ignore_errors=True)


def _worker_init():
    setup_env()
    import warnings

    warnings.filterwarnings("ignore")


def _task(prop: str, leg_name: str, tier: str, seed: int, shard: int, nshards: int) -> dict:
    from vf import core

    mod = importlib.import_module(f"vf.props.{prop.lower()}")
    leg = next(l for l in mod.LEGS if l.name == leg_name)
    t0 = time.time()
    out = core.run_leg_shard(leg, tier, seed, shard, nshards)
    out["wall_s"] = time.time() - t0
    return out


def load_known() -> list[dict]:
    p = os.path.join(HOME, "known_findings.json")
    if not os.path.exists(p):
        return []
    with open(p) as f:
        return json.load(f).get("findings", [])


def match_known(known: list[dict], prop: str, leg: str, sig: str) -> dict | None:
    full = f"{leg}/{sig}"
    for k in known:
        if k.get("status") != "known" or k.get("property") != prop:
            continue
        if k.get("signature") == full:
            return k
        if k.get("signature_re") and re.fullmatch(k["signature_re"], full):
            return k
    return None


def write_replay(prop: str, leg: str, sig: str, recipe, detail: str) -> str:
    from vf.core import rhash

    d = os.path.join(HOME, "out", "replays")
    os.makedirs(d, exist_ok=True)
    safe = re.sub(r"[^A-Za-z0-9_.-]+", "_", sig)[:80]
    path = os.path.join(d, f"{prop}-{leg}-{safe}-{rhash(recipe)}.json")
    with open(path, "w") as f:
        json.dump({"property": prop, "leg": leg, "signature": sig, "detail": detail, "recipe": recipe}, f, indent=1, default=repr)
    return path


def replay_files(prop: str) -> list[str]:
    d = os.path.join(HOME, "replays", prop)
    if not os.path.isdir(d):
        return []
    return sorted(os.path.join(d, x) for x in os.listdir(d) if x.endswith(".json"))


def run_one_replay(path: str) -> tuple[str, str, list]:
    from vf import core

    with open(path) as f:
        r = json.load(f)
    prop, leg_name = r["property"], r["leg"]
    mod = importlib.import_module(f"vf.props.{prop.lower()}")
    leg = next(l for l in mod.LEGS if l.name == leg_name)
    rec = core.Recorder(leg_name)
    rec.handle(leg, r["recipe"])
    if rec.harness_errors:
        raise core.HarnessError(rec.harness_errors[0])
    return prop, leg_name, [(s, v["detail"], v["recipe"]) for s, v in rec.fails.items()]


def cmd_replay(path: str) -> int:
    setup_env()
    known = load_known()
    try:
        prop, leg, fails = run_one_replay(path)
    except Exception:
        traceback.print_exc()
        return 2
    rc = 0
    for sig, detail, _ in fails:
        k = match_known(known, prop, leg, sig)
        if k:
            print(f"KNOWN-FINDING: property={prop} {k['what']}")
        else:
            print(f"VIOLATION property={prop} replay={path}")
            print(f"  leg={leg} signature={sig}\n  {detail}")
            rc = 1
    if not fails:
        print(f"OK property={prop} leg={leg} replay holds")
    return rc


def shrink_fail(prop: str, leg, sig: str, recipe, budget: int):
    from vf import core, shrink

    def still(c):
        rec = core.Recorder(leg.name)
        rec.handle(leg, c)
        return sig in rec.fails

    try:
        small, used = shrink.shrink(recipe, still, budget)
        rec = core.Recorder(leg.name)
        rec.handle(leg, small)
        if sig in rec.fails:
            return small, rec.fails[sig]["detail"], used
    except Exception:
        pass
    return recipe, None, 0


def main(argv: list[str]) -> int:
    if len(argv) >= 2 and argv[0] == "--replay":
        return cmd_replay(argv[1])
    if not argv:
        print(__doc__)
        return 2
    prop = argv[0].upper()
    tier = (argv[1] if len(argv) > 1 else os.environ.get("VERIF_TIER", "quick")).lower()
    if tier not in ("quick", "thorough"):
        tier = "quick"
    try:
        seed = int(os.environ.get("VERIF_SEED", "1"))
    except ValueError:
        seed = 1
    only_legs = [a for a in argv[2:]]
    t0 = time.time()
    setup_env()
    try:
        mod = importlib.import_module(f"vf.props.{prop.lower()}")
    except Exception:
        traceback.print_exc()
        print(f"HARNESS-ERROR property={prop}: cannot import check module")
        return 2
    if hasattr(mod, "prepare"):
        try:
            mod.prepare(tier)
        except Exception:
            traceback.print_exc()
            print(f"HARNESS-ERROR property={prop}: prepare failed")
            return 2
    legs = [l for l in mod.LEGS if not only_legs or l.name in only_legs]
    known = load_known()

    merged: dict[str, dict] = {
        l.name: {"evaluations": 0, "nontrivial": set(), "classes": Counter(), "samples": [], "fails": {}, "wall": 0.0}
        for l in legs
    }
    harness_errors: list[str] = []

    def merge(res):
        m = merged[res["leg"]]
        m["evaluations"] += res["evaluations"]
        m["nontrivial"].update(res["nontrivial"])
        m["classes"].update(res["classes"])
        if len(m["samples"]) < 6:
            m["samples"].extend(res["samples"][: 6 - len(m["samples"])])
        m["wall"] += res.get("wall_s", 0.0)
        for sig, v in res["fails"].items():
            cur = m["fails"].get(sig)
            if cur is None or v["size"] < cur["size"]:
                cnt = (cur["count"] if cur else 0) + v["count"]
                m["fails"][sig] = dict(v, count=cnt)
            else:
                cur["count"] += v["count"]
        harness_errors.extend(res["harness_errors"])

    # committed replays first (seconds-long regression tier)
    n_replays = 0
    replay_fails: list[tuple[str, str, str, str, str]] = []
    for rp in replay_files(prop):
        try:
            _, lname, fails = run_one_replay(rp)
            n_replays += 1
            for sig, detail, _ in fails:
                replay_fails.append((lname, sig, detail, rp, ""))
        except Exception:
            harness_errors.append(f"replay {rp}: " + traceback.format_exc(limit=6))

    import multiprocessing as mp

    tasks = []
    for l in legs:
        ns = max(1, min(l.shards[tier], NCPU * 4))
        for s in range(ns):
            tasks.append((prop, l.name, tier, seed, s, ns))
    budget_s = max(l.timeout[tier] for l in legs) if legs else 60
    ex = ProcessPoolExecutor(max_workers=NCPU, mp_context=mp.get_context("spawn"), initializer=_worker_init)
    try:
        futs = {ex.submit(_task, *t): t for t in tasks}
        try:
            for fu in as_completed(futs, timeout=budget_s):
                try:
                    merge(fu.result())
                except BrokenProcessPool:
                    raise
                except Exception:
                    harness_errors.append(f"task {futs[fu][1:]}: " + traceback.format_exc(limit=8))
        except TimeoutError:
            harness_errors.append(f"time budget of {budget_s}s exhausted (inconclusive, not a violation)")
    except BrokenProcessPool:
        harness_errors.append("worker process died: " + traceback.format_exc(limit=4))
    finally:
        procs = list(getattr(ex, "_processes", {}).values())
        ex.shutdown(wait=not harness_errors, cancel_futures=True)
        if harness_errors:
            for p in procs:
                try:
                    p.kill()
                except Exception:
                    pass

    # verdicts
    rc = 0
    violations = 0
    known_printed = set()
    shrink_budget = 150 if tier == "quick" else 600
    legmap = {l.name: l for l in legs}
    lines = []
    for lname, sig, detail, rp, _ in replay_fails:
        k = match_known(known, prop, lname, sig)
        if k:
            if k["what"] not in known_printed:
                known_printed.add(k["what"])
                lines.append(f"KNOWN-FINDING: property={prop} {k['what']}")
        else:
            violations += 1
            lines.append(f"VIOLATION property={prop} replay={rp}")
            lines.append(f"  leg={lname} signature={sig} (committed replay)\n  {detail}")
    for lname, m in merged.items():
        for sig, v in sorted(m["fails"].items()):
            k = match_known(known, prop, lname, sig)
            if k:
                if k["what"] not in known_printed:
                    known_printed.add(k["what"])
                    lines.append(f"KNOWN-FINDING: property={prop} {k['what']}")
                continue
            violations += 1
            recipe, detail = v["recipe"], v["detail"]
            small, d2, used = shrink_fail(prop, legmap[lname], sig, recipe, shrink_budget)
            if d2 is not None:
                recipe, detail = small, d2
            path = write_replay(prop, lname, sig, recipe, detail)
            lines.append(f"VIOLATION property={prop} replay={path}")
            lines.append(f"  leg={lname} signature={sig} occurrences={v['count']} shrink_evals={used}\n  {detail}")
    if violations:
        rc = 1

    total_eval = sum(m["evaluations"] for m in merged.values()) + n_replays
    total_nt = sum(len(m["nontrivial"]) for m in merged.values())
    samples = []
    for lname, m in merged.items():
        for s in m["samples"][:3]:
            samples.append({"leg": lname, "case": s})
    excluded_known = sum(c for m in merged.values() for lb, c in m["classes"].items() if lb.startswith("excluded_known"))
    rule = " || ".join(f"[{l.name}] {l.rule}" for l in legs)
    exhaustive_legs = [l.name for l in legs if l.exhaustive]
    ev = {
        "property_id": prop,
        "tier": tier,
        "seed": seed,
        "level": getattr(mod, "LEVEL", "exploration"),
        "coverage": {
            "evaluations": total_eval,
            "distinct_nontrivial": total_nt,
            "rule": rule,
            "samples": samples,
            "exhaustive": bool(exhaustive_legs) and len(exhaustive_legs) == len(legs),
            "exhaustive_legs": exhaustive_legs,
            "legs": {
                lname: {
                    "evaluations": m["evaluations"],
                    "distinct_nontrivial": len(m["nontrivial"]),
                    "classes": dict(sorted(m["classes"].items())),
                    "cpu_s": round(m["wall"], 2),
                    "failure_signatures": sorted(m["fails"]),
                }
                for lname, m in merged.items()
            },
            "committed_replays_run": n_replays,
            "excluded_known": excluded_known,
            "known_findings_reproduced": sorted(known_printed),
        },
        "assumptions": list(getattr(mod, "ASSUMPTIONS", [])),
        "wall_s": round(time.time() - t0, 2),
        "violations": violations,
    }
    if harness_errors:
        ev["coverage"]["harness_errors"] = harness_errors[:5]
    if not only_legs:
        # evidence/ describes /repo itself; runs against a scratch copy (VERIF_REPO, used by vf.mutate) write elsewhere
        scratch_repo = os.environ.get("VERIF_REPO", "/repo") not in ("/repo", "/repo/")
        evdir = os.path.join(HOME, "out", "evidence-scratch-copy") if scratch_repo else os.path.join(HOME, "evidence")
        os.makedirs(evdir, exist_ok=True)
        with open(os.path.join(evdir, f"{prop}.json"), "w") as f:
            json.dump(ev, f, indent=1, default=repr)

    for ln in lines:
        print(ln)
    for lname, m in merged.items():
        print(f"[{prop}/{lname}] evaluations={m['evaluations']} distinct_nontrivial={len(m['nontrivial'])} cpu={m['wall']:.1f}s")
    if harness_errors and rc == 0:
        print(f"HARNESS-ERROR property={prop}: {len(harness_errors)} error(s); first:\n{harness_errors[0]}")
        return 2
    if harness_errors:
        print(f"(also {len(harness_errors)} harness error(s); first: {harness_errors[0][:500]})")
    if rc == 0:
        print(f"OK property={prop} tier={tier} seed={seed} evaluations={total_eval} distinct_nontrivial={total_nt} wall={time.time()-t0:.1f}s")
    return rc


if __name__ == "__main__":
    try:
        code = main(sys.argv[1:])
    except SystemExit:
        raise
    except BaseException:
        traceback.print_exc()
        code = 2
    sys.stdout.flush()
    sys.exit(code)
