"""Confirms and evaluates a seeded breaking change produced by an independent sub-agent.

  python -m vf.seeded <ID> <source dir with patch.diff demo.py meta.json> <name> [--tier quick]

1. scratch copy of /repo (outside /repo and /verif): demo passes on the unchanged tree; patch applies;
   demo fails with it; the 81 baseline tests still pass with it.           (confirmation)
2. /repo itself: git apply, run ./check <ID> <tier>, git checkout -- .      (detection)
3. writes /verif/seeded/<ID>/<name>/{patch.diff, demo.py, meta.json}
"""
from __future__ import annotations

import json
import os
import shutil
import subprocess
import sys

from vf.mutate import make_copy, run_tests

HOME = os.path.dirname(os.path.dirname(os.path.abspath(__file__)))


def run_demo(copy, demo):
    env = dict(os.environ, PYTHONPATH=copy, MOLLI_HOME=os.path.join(os.path.dirname(copy), "mh"), PYTHONDONTWRITEBYTECODE="1")
    try:
        p = subprocess.run(["/venv/bin/python", demo], cwd=os.path.dirname(demo), env=env, capture_output=True, text=True, timeout=600)
        return p.returncode, (p.stdout + p.stderr)[-600:]
    except subprocess.TimeoutExpired:
        return 124, "timeout"


def main(argv):
    prop, src, name = argv[0].upper(), argv[1], argv[2]
    tier = "quick"
    if "--tier" in argv:
        tier = argv[argv.index("--tier") + 1]
    check_prop = prop
    if "--check-with" in argv:
        check_prop = argv[argv.index("--check-with") + 1].upper()
    note = argv[argv.index("--note") + 1] if "--note" in argv else None
    patch = os.path.join(src, "patch.diff")
    demo = os.path.join(src, "demo.py")
    meta = json.load(open(os.path.join(src, "meta.json")))
    out = {"property": prop, "name": name, "agent_meta": meta}
    copy = make_copy()
    try:
        d2 = os.path.join(os.path.dirname(copy), "demo.py")
        shutil.copyfile(demo, d2)
        rc0, o0 = run_demo(copy, d2)
        out["demo_on_unchanged_tree"] = {"exit": rc0, "tail": o0[-200:]}
        pr = subprocess.run(["git", "apply", "--unsafe-paths", f"--directory={copy}", patch], capture_output=True, text=True, cwd="/")
        if pr.returncode != 0:
            pr = subprocess.run(["patch", "-p1", "-i", patch], cwd=copy, capture_output=True, text=True)
        out["patch_applies"] = pr.returncode == 0
        if pr.returncode != 0:
            print("PATCH DOES NOT APPLY", pr.stdout[-300:], pr.stderr[-300:])
            return 2
        rc1, o1 = run_demo(copy, d2)
        out["demo_with_change"] = {"exit": rc1, "tail": o1[-300:]}
        ok, msg = run_tests(copy)
        out["tests_with_change"] = msg
        out["confirmed"] = bool(rc0 == 0 and rc1 != 0 and ok)
    finally:
        shutil.rmtree(os.path.dirname(copy), ignore_errors=True)
    print(f"[{prop}/{name}] demo unchanged={rc0} with-change={rc1} tests={msg} confirmed={out['confirmed']}")
    if not out["confirmed"]:
        print(json.dumps(out, indent=1)[:1500])
        return 3
    if "--scratch" in argv:
        # detection against a scratch copy (used while long background runs are reading /repo itself)
        copy2 = make_copy()
        try:
            pr = subprocess.run(["patch", "-p1", "-i", patch], cwd=copy2, capture_output=True, text=True)
            if pr.returncode != 0:
                print("patch failed on scratch copy", pr.stdout[-300:])
                return 2
            env = dict(os.environ, VERIF_REPO=copy2)
            env.pop("VF_SCRATCH", None)
            p = subprocess.run([os.path.join(HOME, "check"), check_prop, tier], cwd=HOME, env=env, capture_output=True, text=True, timeout=7200)
        finally:
            shutil.rmtree(os.path.dirname(copy2), ignore_errors=True)
        return _finish(p, out, prop, check_prop, tier, name, patch, demo, meta, note, how=f"scratch copy of /repo + patch.diff; VERIF_REPO=<copy> ./check {check_prop} {tier}")
    # detection run against /repo itself
    st = subprocess.run(["git", "-C", "/repo", "status", "--porcelain"], capture_output=True, text=True).stdout.strip()
    if st:
        print("REFUSING: /repo working tree is not clean:", st[:200])
        return 2
    evf = os.path.join(HOME, "evidence", f"{check_prop}.json")
    ev_backup = open(evf).read() if os.path.exists(evf) else None   # evidence must describe the UNCHANGED tree
    try:
        pr = subprocess.run(["git", "-C", "/repo", "apply", patch], capture_output=True, text=True)
        if pr.returncode != 0:
            print("git apply on /repo failed", pr.stderr[-300:])
            return 2
        env = dict(os.environ)
        env.pop("VF_SCRATCH", None)
        env.pop("VERIF_REPO", None)
        p = subprocess.run([os.path.join(HOME, "check"), check_prop, tier], cwd=HOME, env=env, capture_output=True, text=True, timeout=7200)
    finally:
        subprocess.run(["git", "-C", "/repo", "checkout", "--", "."], capture_output=True)
        if ev_backup is not None:
            with open(evf, "w") as f:
                f.write(ev_backup)
    return _finish(p, out, prop, check_prop, tier, name, patch, demo, meta, note, how=f"/repo: git apply patch.diff; ./check {check_prop} {tier}; git checkout -- .")


def _finish(p, out, prop, check_prop, tier, name, patch, demo, meta, note, how):
    viol = [l for l in p.stdout.splitlines() if l.startswith("VIOLATION")]
    sigs = [l.strip() for l in p.stdout.splitlines() if l.strip().startswith("leg=")]
    out["check"] = {"cmd": f"./check {check_prop} {tier}", "exit": p.returncode, "violations": len(viol), "signatures": sigs[:8]}
    out["detected"] = p.returncode == 1 and bool(viol)
    print(f"[{prop}/{name}] check exit={p.returncode} detected={out['detected']} {sigs[:3]}")
    if p.returncode not in (0, 1):
        print(p.stdout[-1500:], p.stderr[-800:])
    dst = os.path.join(HOME, "seeded", prop, name)
    os.makedirs(dst, exist_ok=True)
    if os.path.abspath(patch) != os.path.abspath(os.path.join(dst, "patch.diff")):
        shutil.copyfile(patch, os.path.join(dst, "patch.diff"))
        shutil.copyfile(demo, os.path.join(dst, "demo.py"))
    m = {
        "property": prop,
        "summary": meta.get("summary"),
        "needs": meta.get("needs"),
        "files_changed": meta.get("files_changed"),
        "origin": "independent sub-agent given only the property text and a scratch worktree",
        "what_i_ran": [
            "scratch copy of /repo: demo.py exits 0 on the unchanged tree",
            "scratch copy + patch.diff: demo.py exits non-zero; repository test suite: " + out["tests_with_change"],
            how,
        ],
        "confirmed": out["confirmed"],
        "demo_with_change": out["demo_with_change"],
        "check_result": out["check"],
        "detected": out["detected"],
    }
    if note:
        m["note"] = note
    with open(os.path.join(dst, "meta.json"), "w") as f:
        json.dump(m, f, indent=1)
    return 0


if __name__ == "__main__":
    sys.exit(main(sys.argv[1:]))
