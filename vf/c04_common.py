"""Session executor shared by the C04 driver (in-process handles) and its helper processes."""
from __future__ import annotations

import atexit

MARK = b"\xffENCODER-MUST-FAIL"
BADKEY = "WRITE-MUST-FAIL"
KINDS = ["read_all", "write1", "write2", "fail_body", "fail_encoder", "fail_flush", "fail_end_write", "read_fail_body", "fail_end_read", "fail_begin_write", "fail_begin_read",
         # the body is left by an exception that is NOT an Exception subclass (Ctrl-C in a notebook, sys.exit() caught higher up)
         "fail_body_interrupt", "fail_body_sysexit", "read_fail_interrupt",
         # a writing session that first READS a record that is already there (deriving a new record from an old one), then stores
         "read_write1",
         # the STREAM write of the second record's value fails (disk full) - inside UKVFile.put, below the backend's own _write
         "fail_stream_write",
         # a record under the EMPTY key (a legal key) - once per library, afterwards an ordinary write
         "write_emptykey",
         # not a session of a live handle at all: some OTHER process was killed in the middle of an append - the file ends in a torn record
         "killed_mid_append",
         # a small-buffer handle: a backend write fails in a flush in the MIDDLE of the session, the caller catches that error and carries
         # on; the session ends normally - the records whose put had returned before are stored
         "caught_flush_error"]
TIMEOUT = 5.0


class Boom(Exception):
    pass


class EncErr(Exception):
    pass


class InjectedIOError(OSError):
    pass


def _enc(v):
    if v == MARK:
        raise EncErr("encoder refuses this value")
    return v


def make_handle(path, readonly, bufsize):
    from molli.storage import Collection, UkvCollectionBackend

    c = Collection(path, UkvCollectionBackend, value_encoder=_enc, readonly=readonly, bufsize=bufsize)
    atexit.unregister(c._backend.flush)
    be = c._backend
    real_write = be._write

    def _write(key, value):            # fault injector: "backend write during flush"
        if key == BADKEY:
            raise InjectedIOError("injected write failure")
        return real_write(key, value)

    be._write = _write
    return c


def run_session(c, kind: str, keys: list[str], vals: list[bytes]) -> dict:
    """Runs one session of the given kind. Returns what happened; never raises for molli errors."""
    be = c._backend
    res = {"exc": None, "seen": None, "put_ok": [], "acquired": True}
    restore = []
    try:
        if kind == "killed_mid_append":
            # the harness itself plays the killed process: header + key + HALF of the value of one more record go to the end of the file
            import struct
            k_, v_ = keys[0].encode(), vals[0] + b"\0" * 64
            from molli.storage.ukvfile import UKVFile
            UKVFile(be._path, "a").close()      # (the process that gets killed had opened the library for appending like any other writer)
            with open(be._path, "ab") as fh:
                fh.write(struct.pack(">BI", len(k_), len(v_)) + k_ + v_[: len(v_) // 2])
            res["state"], res["file_closed"] = be._state, True
            return res
        if kind in ("fail_begin_write", "fail_begin_read"):
            # the backend cannot open its file (deleted / unreadable library): the session never starts
            attr = "begin_write" if kind == "fail_begin_write" else "begin_read"
            real = getattr(be, attr)

            def begin():
                raise InjectedIOError("injected failure while opening the backend file")

            setattr(be, attr, begin)
            restore.append((attr, real))
            with (c.writing(timeout=TIMEOUT) if kind == "fail_begin_write" else c.reading(timeout=TIMEOUT)):
                raise AssertionError("session body reached although begin_* failed")
        elif kind in ("read_all", "read_fail_body", "fail_end_read", "read_fail_interrupt"):
            if kind == "fail_end_read":
                real = be.end_read

                def end_read():
                    real()
                    raise InjectedIOError("injected end_read failure")

                be.end_read = end_read
                restore.append(("end_read", real))
            with c.reading(timeout=TIMEOUT):
                seen = {}
                for k in sorted(c.keys()):
                    seen[k] = c[k].hex()
                res["seen"] = seen
                if kind == "read_fail_body":
                    raise Boom("reader body fails")
                if kind == "read_fail_interrupt":
                    raise KeyboardInterrupt("injected")
        elif kind == "caught_flush_error":
            c2 = make_handle(str(be._path), False, 64)
            with c2.writing(timeout=TIMEOUT):
                c2[BADKEY] = b"never stored"                            # queued (the buffer is not full yet)
                c2[keys[0]] = vals[0]; res["put_ok"].append(keys[0])    # queued behind it
                try:
                    c2[keys[1]] = vals[1]                               # 9 kB: the buffer overflows, the flush meets the bad record
                    res["put_ok"].append(keys[1])
                except InjectedIOError:
                    pass
        else:
            if kind == "fail_end_write":
                real = be.end_write

                def end_write():
                    real()
                    raise InjectedIOError("injected end_write failure")

                be.end_write = end_write
                restore.append(("end_write", real))
            with c.writing(timeout=TIMEOUT):
                if kind == "caught_flush_error":
                    pass
                elif kind == "write_emptykey":
                    k_ = "" if "" not in c.keys() else keys[0]
                    c[k_] = vals[0]; res["put_ok"].append(k_)
                    res["put_map"] = {k_: vals[0].hex()}
                elif kind == "read_write1":
                    ks_ = sorted(c.keys())
                    if ks_:
                        c[ks_[0]]
                    c[keys[0]] = vals[0]; res["put_ok"].append(keys[0])
                elif kind == "write1":
                    c[keys[0]] = vals[0]; res["put_ok"].append(keys[0])
                elif kind in ("write2", "fail_end_write"):
                    c[keys[0]] = vals[0]; res["put_ok"].append(keys[0])
                    c[keys[1]] = vals[1]; res["put_ok"].append(keys[1])
                elif kind in ("fail_body", "fail_body_interrupt", "fail_body_sysexit"):
                    c[keys[0]] = vals[0]; res["put_ok"].append(keys[0])
                    raise (Boom("writer body fails") if kind == "fail_body" else KeyboardInterrupt("injected") if kind == "fail_body_interrupt" else SystemExit(3))
                elif kind == "fail_stream_write":
                    uf = be._ukvfile
                    real_stream = uf._stream
                    doomed = vals[1]

                    class _Full:
                        def write(self_, b):
                            if bytes(b) == doomed:
                                raise InjectedIOError(28, "injected: no space left on device")
                            return real_stream.write(b)

                        def __getattr__(self_, nm):
                            return getattr(real_stream, nm)

                    uf._stream = _Full()
                    c[keys[0]] = vals[0]; res["put_ok"].append(keys[0])
                    c[keys[1]] = vals[1]             # raises here (unbuffered) or at the exit-time flush (buffered)
                elif kind == "fail_encoder":
                    c[keys[0]] = vals[0]; res["put_ok"].append(keys[0])
                    c[keys[1]] = MARK
                elif kind == "fail_flush":
                    c[keys[0]] = vals[0]; res["put_ok"].append(keys[0])
                    c[BADKEY] = b"never stored"      # raises here (unbuffered) or at the exit-time flush (buffered)
                    c[keys[1]] = vals[1]             # only reached on buffered handles; stranded behind the failure
    except TimeoutError as e:
        res["exc"] = "TimeoutError"
        res["acquired"] = False
    except BaseException as e:  # noqa
        if isinstance(e, (KeyboardInterrupt, SystemExit)) and not kind.endswith(("_interrupt", "_sysexit")):
            raise
        res["exc"] = type(e).__name__
    finally:
        for name, real in restore:
            setattr(be, name, real)
    res["state"] = be._state
    uf = getattr(be, "_ukvfile", None)
    res["file_closed"] = True if uf is None else bool(uf.closed)
    # NOTE: whatever a failed flush left in the write queue stays there: the next writing session of
    # this handle will flush it ("may persist"), and it must not prevent that session from proceeding.
    return res
