"""One jobmap run of a C18 history in a separate interpreter process:  python -m vf.c18_child <params.json>"""
import json
import sys

from vf import run as _run

_run.setup_env()


def main():
    from vf.props import c18

    c18.run_jobmap(json.load(open(sys.argv[1])))


if __name__ == "__main__":
    main()
