"""C11 — geometric operations are rigid motions with the documented effect.

Legs
  vecrot   rotation_matrix_from_vectors: proper rotation, v1n @ R == v2n, incl. the antiparallel neighbourhood
  axisrot  rotation_matrix_from_axis: proper, fixes the axis, trace 1+2cos, antisymmetric part sin*[axis]x
  rigid    translate / transform / ensemble translate (1-D, 2-D) / rotate ((3,3), per-conformer) /
           center_at_atom / center_at_core / substructure edits: distances + handedness + documented effect
  dihedral rotate_dihedral on every suitable acyclic bond: target reached, other side bit-identical
  align    Molecule / ConformerEnsemble.align_to_ref_coords with a harness Kabsch: reported RMSD is the
           achieved one; result independent of the input's initial pose
"""
from __future__ import annotations

import math

import numpy as np
from hypothesis import strategies as st

from vf import chem
from vf.core import Fail, Leg, HarnessError, tally

LEVEL = "exploration"
ASSUMPTIONS = [
    "dihedrals with a (nearly) collinear triple are undefined: |sin(bond angle)| > 0.1 at both central atoms",
    "alignment RMSD below the code's sentinel (100)",
    "tolerances: 1e-6 absolute for constructed rotation matrices (the near-antiparallel formula divides by 1+c >= tol), 1e-9 relative for rigid motions",
]


def _unit(v):
    v = np.asarray(v, dtype=float)
    return v / np.linalg.norm(v)


def _proper_R(seed):
    rng = np.random.default_rng(seed)
    q, r = np.linalg.qr(rng.normal(size=(3, 3)))
    q = q @ np.diag(np.sign(np.diag(r)))
    if np.linalg.det(q) < 0:
        q[:, 0] = -q[:, 0]
    return q


def _pd(c):
    c = np.asarray(c, dtype=float)
    return np.linalg.norm(c[:, None, :] - c[None, :, :], axis=-1)


def _vols(c, k=40):
    """signed volumes of a deterministic sample of 4-tuples"""
    c = np.asarray(c, dtype=float)
    n = len(c)
    out = []
    if n < 4:
        return np.array(out)
    idx = [(i % n, (i * 7 + 1) % n, (i * 13 + 2) % n, (i * 29 + 3) % n) for i in range(min(k, n * 3))]
    for a, b, d, e in idx:
        if len({a, b, d, e}) == 4:
            out.append(np.linalg.det(np.array([c[b] - c[a], c[d] - c[a], c[e] - c[a]])))
    return np.array(out)


# ---------------------------------------------------------------- rotation constructors
def check_vecrot(r) -> list[Fail]:
    from molli.math import rotation_matrix_from_vectors

    v1 = np.array(r["v1"], dtype=float)
    mode = r["mode"]
    if mode == "general":
        v2 = np.array(r["v2"], dtype=float)
    elif mode == "anti":
        d = np.array(r["v2"], dtype=float)
        d = d - _unit(v1) * np.dot(d, _unit(v1))
        if np.linalg.norm(d) < 1e-6:
            d = np.cross(_unit(v1), [1.0, 0.3, -0.2])
        v2 = -_unit(v1) * r["scale"] + _unit(d) * r["eps"] * r["scale"]
    elif mode == "parallel":
        v2 = v1 * r["scale"]
    else:
        raise HarnessError("bad mode")
    if np.linalg.norm(v1) < 1e-6 or np.linalg.norm(v2) < 1e-6:
        return []
    kw = {} if r["tol"] is None else {"tol": r["tol"]}
    np.random.seed(r["npseed"])
    v1g, v2g = v1.copy(), v2.copy()
    R = np.asarray(rotation_matrix_from_vectors(v1, v2, **kw), dtype=float)
    fails = []
    if not (np.array_equal(v1, v1g) and np.array_equal(v2, v2g)):
        fails.append(Fail("vecrot:callers-vectors-overwritten", f"v1 {v1g}->{v1}, v2 {v2g}->{v2}"))
        v1, v2 = v1g, v2g
    cls = mode if mode != "anti" else ("anti_exact" if r["eps"] == 0 else f"anti_eps~1e{int(math.floor(math.log10(r['eps'])))}")
    if R.shape != (3, 3) or not np.all(np.isfinite(R)):
        return [Fail(f"vecrot:not-a-finite-3x3:{mode}", f"v1={v1} v2={v2}: {R}")]
    if np.max(np.abs(R.T @ R - np.eye(3))) > 1e-6:
        fails.append(Fail(f"vecrot:not-orthogonal:{mode}", f"[{cls}] v1={v1} v2={v2}: |RtR-I|={np.max(np.abs(R.T @ R - np.eye(3))):.2e}"))
    if abs(np.linalg.det(R) - 1) > 1e-6:
        fails.append(Fail(f"vecrot:det-not-+1:{mode}", f"[{cls}] v1={v1} v2={v2}: det={np.linalg.det(R):.9f}"))
    err = np.max(np.abs(_unit(v1) @ R - _unit(v2)))
    if err > 1e-6:
        fails.append(Fail(f"vecrot:does-not-map-v1-to-v2:{mode}", f"[{cls}] v1={v1} v2={v2}: |v1n@R - v2n|={err:.2e}"))
    np.random.seed(r["npseed"])
    R_raw = rotation_matrix_from_vectors(v1.copy(), v2.copy(), **kw)
    if isinstance(R_raw, np.ndarray) and R_raw.flags.writeable and not fails:
        R_raw *= -1.0
        np.random.seed(r["npseed"])
        R_again = np.asarray(rotation_matrix_from_vectors(v1.copy(), v2.copy(), **kw), dtype=float)
        if not np.array_equal(R_again, R):
            fails.append(Fail("vecrot:second-request-returns-the-matrix-the-caller-scribbled-on", f"[{cls}] v1={v1} v2={v2}"))
    return fails


def classify_vecrot(r):
    lab = [f"mode={r['mode']}", f"tol={r['tol']}"]
    if r["mode"] == "anti":
        lab.append("anti_exact" if r["eps"] == 0 else f"anti_eps~1e{int(math.floor(math.log10(r['eps'])))}")
    return True, lab


_vec = st.lists(st.one_of(st.floats(-10, 10), st.sampled_from([0.0, 1.0, -1.0])), min_size=3, max_size=3).filter(lambda v: sum(x * x for x in v) > 1e-6)


def strat_vecrot(tier):
    eps = st.one_of(st.just(0.0), st.floats(-12, -3).map(lambda e: 10.0 ** e), st.sampled_from([1e-8, 1.4e-4, 1e-4, 2e-4, 1e-3]))
    return st.fixed_dictionaries({
        "v1": st.one_of(_vec, st.sampled_from([[1.0, 0, 0], [0, 1.0, 0], [0, 0, 1.0], [0, 0, -1.0], [1.0, 1.0, 1.0]])),
        "v2": _vec, "mode": st.sampled_from(["general", "general", "anti", "anti", "parallel"]),
        "eps": eps, "scale": st.floats(0.1, 10), "tol": st.sampled_from([None, 1e-6, 1e-8]), "npseed": st.integers(0, 2**31 - 1),
    })


def check_axisrot(r) -> list[Fail]:
    from molli.math import rotation_matrix_from_axis

    ax = np.array(r["axis"], dtype=float) * r.get("scale", 1.0)      # (an axis is a direction: very short and very long ones included)
    th = r["angle"]
    ax_given = ax.copy()
    R = np.asarray(rotation_matrix_from_axis(ax, th), dtype=float)
    fails = []
    if not np.array_equal(ax, ax_given):
        # the caller's axis is typically a live row of coordinates (an atom position, a bond vector view): building the matrix must not
        # move it - otherwise "that axis" is gone and the molecule is distorted before the rotation is even applied
        fails.append(Fail("axisrot:callers-axis-array-overwritten", f"axis {ax_given} became {ax}"))
        ax = ax_given
    a = _unit(ax)
    if np.max(np.abs(R.T @ R - np.eye(3))) > 1e-9:
        fails.append(Fail("axisrot:not-orthogonal", f"axis={ax} angle={th}"))
    if abs(np.linalg.det(R) - 1) > 1e-9:
        fails.append(Fail("axisrot:det-not-+1", f"axis={ax} angle={th}: det={np.linalg.det(R)}"))
    if np.max(np.abs(R @ a - a)) > 1e-9 or np.max(np.abs(a @ R - a)) > 1e-9:
        fails.append(Fail("axisrot:axis-not-fixed", f"axis={ax} angle={th}"))
    if abs(np.trace(R) - (1 + 2 * math.cos(th))) > 1e-9:
        fails.append(Fail("axisrot:wrong-angle", f"axis={ax} angle={th}: trace={np.trace(R)} expected {1 + 2 * math.cos(th)}"))
    K = np.array([[0, -a[2], a[1]], [a[2], 0, -a[0]], [-a[1], a[0], 0]])
    if np.max(np.abs((R - R.T) / 2 - math.sin(th) * K)) > 1e-9:
        fails.append(Fail("axisrot:wrong-sense", f"axis={ax} angle={th}: antisymmetric part is not sin(angle)*[axis]x (Rodrigues form cited by the docstring)"))
    # what is returned belongs to the caller: writing into it must not change what the next request for the same rotation returns
    R_raw = rotation_matrix_from_axis(ax_given.copy(), th)
    if isinstance(R_raw, np.ndarray) and R_raw.flags.writeable:
        R_raw *= -1.0
        R_raw[0, 0] = 12345.0
        R_again = np.asarray(rotation_matrix_from_axis(ax_given.copy(), th), dtype=float)
        if not np.array_equal(R_again, R):
            fails.append(Fail("axisrot:second-request-returns-the-matrix-the-caller-scribbled-on", f"axis={ax} angle={th}"))
    return fails


def strat_axisrot(tier):
    ang = st.one_of(st.floats(-7, 7), st.sampled_from([0.0, math.pi, -math.pi, math.pi / 2, -math.pi / 2, 2 * math.pi + 0.3, 1e-9]))
    return st.fixed_dictionaries({"axis": _vec, "angle": ang, "scale": st.sampled_from([1.0, 1.0, 1.0, 1e-9, 3e-12, 1e7])})


# ---------------------------------------------------------------- rigid motions
def _finite_mol(r):
    r = dict(r)

    def cl(x):
        return 0.37 if (x != x or math.isinf(x)) else max(-30.0, min(30.0, x))

    r["coords"] = [[cl(x) for x in c] for c in r["coords"]]
    if "confs" in r:
        r["confs"] = [[[cl(x) for x in c] for c in f] for f in r["confs"]]
    return r


def check_rigid(r) -> list[Fail]:
    import molli as ml

    fails: list[Fail] = []
    op = r["op"]
    R = _proper_R(r["rseed"])
    v = np.array(r["vec"], dtype=float)
    # the documented `validate` flag of transform(): a proper rotation is a valid matrix, so the flag changes nothing about the result
    vkw = {"validate": True} if r.get("validate") else {}

    def same_shape(before, after, what, proper=True):
        db, da = _pd(before), _pd(after)
        sc = max(1.0, float(np.max(db)) if db.size else 1.0)
        if db.size and np.max(np.abs(db - da)) > 1e-9 * sc:
            fails.append(Fail(f"rigid:{what}:distances-changed", f"max |d-d'| = {np.max(np.abs(db - da)):.3e}"))
        vb, va = _vols(before), _vols(after)
        m = np.abs(vb) > 1e-6 * sc ** 3
        if m.any() and np.any(np.sign(vb[m]) != np.sign(va[m])):
            fails.append(Fail(f"rigid:{what}:handedness-flipped", ""))

    if op in ("translate", "transform", "sub_translate", "sub_transform"):
        m = chem.build_molecule(r["mol"], ml.Molecule)
        n = m.n_atoms
        before = m.coords.copy()
        if op == "translate":
            m.translate(v)
            if not np.allclose(m.coords - before, v, atol=1e-9, rtol=0):
                fails.append(Fail("rigid:translate:not-the-vector", ""))
            same_shape(before, m.coords, "translate")
        elif op == "transform":
            m.transform(R, **vkw)
            if not np.allclose(m.coords, before @ R, atol=1e-9):
                fails.append(Fail("rigid:transform:not-coords@R", ""))
            same_shape(before, m.coords, "transform")
        else:
            idx = sorted({i % n for i in r["idx"]})
            if r.get("dups") and not r.get("parent_edit"):
                # a selection that names an atom more than once (chained neighbour shells, [i, j, i]): still moved exactly once
                sel_list = [i % n for i in r["idx"]] + [idx[0]]
                sub = m.substructure(sel_list)
                if op == "sub_translate":
                    sub.translate(v)
                    exp = before[idx] + v
                else:
                    sub.transform(R, **vkw)
                    exp = before[idx] @ R
                rest = [i for i in range(n) if i not in idx]
                if not np.array_equal(m.coords[rest], before[rest]):
                    fails.append(Fail(f"rigid:{op}:unselected-atoms-moved", "selection with repeated atoms"))
                if not np.allclose(m.coords[idx], exp, atol=1e-9):
                    fails.append(Fail(f"rigid:{op}:selected-atoms-wrong:repeated-atom-in-selection", f"selection {sel_list}"))
                return fails
            sub = m.substructure(idx)
            pe = r.get("parent_edit", 0)
            if pe and r["rseed"] % 2:
                # the view is USED once (read, and written back unchanged) before the parent changes
                c_ = np.array(sub.coords)
                sub.coords = c_
                _ = sub.parent_atom_indices
            rest0 = [i for i in range(n) if i not in idx]
            if pe == 1 and rest0:
                # the parent loses an unselected atom after the substructure was taken: the selection is the same atoms
                sel = [m.atoms[i] for i in idx]
                x = rest0[r["rseed"] % len(rest0)]
                m.del_atom(m.atoms[x])
                before = np.delete(before, x, axis=0)
                n -= 1
                idx = [next(j for j, a_ in enumerate(m.atoms) if a_ is s_) for s_ in sel]
            elif pe == 2:
                from molli.chem import Atom
                m.add_atom(Atom("H"), [9.0, 9.0, 9.0])
                before = np.vstack([before, [[9.0, 9.0, 9.0]]])
                n += 1
            if op == "sub_translate":
                sub.translate(v)
                exp = before[idx] + v
            else:
                sub.transform(R, **vkw)
                exp = before[idx] @ R
            rest = [i for i in range(n) if i not in idx]
            if not np.array_equal(m.coords[rest], before[rest]):
                fails.append(Fail(f"rigid:{op}:unselected-atoms-moved", ""))
            if not np.allclose(m.coords[idx], exp, atol=1e-9):
                fails.append(Fail(f"rigid:{op}:selected-atoms-wrong", ""))
            same_shape(before[idx], m.coords[idx], op)
        return fails
    ens = chem.build_ensemble(r["mol"])
    nc, n = ens.n_conformers, ens.n_atoms
    before = ens.coords.copy()
    if op == "ens_translate1":
        ens.translate(v)
        exp = before + v
    elif op == "ens_translate2":
        vs = np.array([v * (i + 1) for i in range(nc)]).reshape((nc, 3))
        ens.translate(vs)
        exp = before + vs[:, None, :]
    elif op == "ens_rotate1":
        ens.rotate(R)
        exp = before @ R
    elif op == "ens_rotate_per_conf":
        Rs = np.array([_proper_R(r["rseed"] + i) for i in range(nc)]).reshape((nc, 3, 3))
        ens.rotate(Rs)
        exp = np.array([before[i] @ Rs[i] for i in range(nc)]).reshape(before.shape)
    elif op == "center_at_atom":
        a = ens.atoms[r["idx"][0] % n]
        ens.center_at_atom(a)
        k = r["idx"][0] % n
        exp = before - before[:, k:k + 1, :]
        if not np.allclose(ens.coords[:, k, :], 0, atol=1e-9):
            fails.append(Fail("rigid:center_at_atom:atom-not-at-origin", f"{ens.coords[:, k, :]}"))
    elif op == "center_at_core":
        idx = sorted({i % n for i in r["idx"]})
        ens.center_at_core(idx)
        cen = before[:, idx, :].mean(axis=1)
        exp = before - cen[:, None, :]
        if not np.allclose(ens.coords[:, idx, :].mean(axis=1), 0, atol=1e-9):
            fails.append(Fail("rigid:center_at_core:core-centroid-not-at-origin", f"{ens.coords[:, idx, :].mean(axis=1)}"))
    else:
        raise HarnessError("bad op")
    if ens.coords.shape != before.shape:
        return [Fail(f"rigid:{op}:shape-changed", f"{before.shape} -> {ens.coords.shape}")]
    if not np.allclose(ens.coords, exp, atol=1e-9):
        fails.append(Fail(f"rigid:{op}:documented-effect-wrong", f"max dev {np.max(np.abs(ens.coords - exp)):.3e}"))
    for i in range(nc):
        same_shape(before[i], ens.coords[i], op)
    return fails


def classify_rigid(r):
    n = len(r["mol"]["atoms"])
    return n >= 4, ["op=" + r["op"], f"n_conf={len(r['mol'].get('confs', []))}"] + ([["", "parent_lost_an_atom_after_selection", "parent_gained_an_atom_after_selection"][r.get("parent_edit", 0)]] if r["op"].startswith("sub_") and r.get("parent_edit") else [])


def strat_rigid(tier):
    ensr = chem.ensemble_recipe(max_atoms=12 if tier == "quick" else 30, max_bonds=8, max_conf=4, attribs=False, full=False, special_coords=False, min_atoms=2).filter(lambda r: len(r["confs"]) >= 1).map(_finite_mol)
    return st.fixed_dictionaries({
        "op": st.sampled_from(["translate", "transform", "sub_translate", "sub_transform", "ens_translate1", "ens_translate2", "ens_rotate1", "ens_rotate_per_conf", "center_at_atom", "center_at_core"]),
        "mol": ensr, "rseed": st.integers(0, 10**6), "vec": st.lists(st.floats(-20, 20), min_size=3, max_size=3), "idx": st.lists(st.integers(0, 60), min_size=1, max_size=6),
        "parent_edit": st.sampled_from([0, 0, 1, 1, 2]), "dups": st.sampled_from([False, False, True]), "validate": st.sampled_from([False, False, True]),
    })


# ---------------------------------------------------------------- rotate_dihedral
def _dihedral(c, a1, a2, a3, a4):
    """the harness' own dihedral (atan2 form: well defined for flat cis / trans arrangements as well).  Sign convention calibrated on
    the documented example of CartesianGeometry.dihedral: dendrobine.dihedral(0, 1, 2, 3) == -0.3286236550063439"""
    b0, b1, b2 = c[a2] - c[a1], c[a3] - c[a2], c[a4] - c[a3]
    n1, n2 = np.cross(b0, b1), np.cross(b1, b2)
    m1 = np.cross(n1, b1 / np.linalg.norm(b1))
    return -float(math.atan2(np.dot(m1, n2), np.dot(n1, n2)))


def _candidates(m):
    """(a1,a2,a3,a4) for every bridge bond a2-a3 with suitable neighbours"""
    import networkx as nx

    g = nx.Graph()
    g.add_nodes_from(range(m.n_atoms))
    idx = {id(a): i for i, a in enumerate(m.atoms)}
    for b in m.bonds:
        g.add_edge(idx[id(b.a1)], idx[id(b.a2)])
    out = []
    for (u, w) in nx.bridges(g):
        for a2, a3 in ((u, w), (w, u)):
            n1 = [x for x in g[a2] if x != a3]
            n4 = [x for x in g[a3] if x != a2]
            for a1 in n1[:2]:
                for a4 in n4[:2]:
                    def s(i, j, k):
                        p, q = m.coords[i] - m.coords[j], m.coords[k] - m.coords[j]
                        c = np.dot(p, q) / (np.linalg.norm(p) * np.linalg.norm(q))
                        return math.sqrt(max(0.0, 1 - c * c))
                    with np.errstate(all="ignore"):
                        if s(a1, a2, a3) > 0.1 and s(a2, a3, a4) > 0.1:
                            out.append((a1, a2, a3, a4))
    return out, g


def _spread(r):
    # general position: perturb duplicates deterministically so that no two atoms coincide
    r = _finite_mol(r)
    cs = np.array(r["coords"], dtype=float).reshape((-1, 3))
    for i in range(len(cs)):
        cs[i] += np.array([0.731 * i, -0.377 * i * i % 5, 0.219 * (i % 7)])
    r["coords"] = cs.tolist()
    return r


def check_dihedral(r) -> list[Fail]:
    import molli as ml

    if "file" in r:
        m = ml.Molecule.load_mol2(getattr(ml.files, r["file"]))
    else:
        m = chem.build_molecule(r["mol"], ml.Molecule)
        if r.get("flat"):
            # an exactly planar geometry (2-D drawing, idealised build): every dihedral is exactly 0 or pi
            c_ = np.array(m.coords, dtype=float)
            c_[:, 2] = 0.0
            m.coords = c_
    rewired = False
    if r.get("rewire") and "file" not in r and m.n_bonds >= 1 and m.n_atoms >= 4:
        # the molecule has been LOOKED AT (ring test, traversal, neighbours) and then re-wired in place - one bond deleted, another made,
        # so the numbers of atoms and bonds are what they were - before the dihedral is turned on this very object
        for b_ in list(m.bonds):
            m.is_bond_in_ring(b_)
        list(m.yield_bfs(m.atoms[0]))
        for a_ in m.atoms:
            list(m.connected_atoms(a_))
        k_ = r["rewire"][0] % m.n_bonds
        bonded = {frozenset((m.atoms.index(b_.a1), m.atoms.index(b_.a2))) for b_ in m.bonds}
        free = [(i, j) for i in range(m.n_atoms) for j in range(i + 1, m.n_atoms) if frozenset((i, j)) not in bonded]
        if free:
            i_, j_ = free[r["rewire"][1] % len(free)]
            m.del_bond(m.bonds[k_])
            m.connect(i_, j_)
            rewired = True
    cands, g = _candidates(m)
    if not cands:
        return []
    fails: list[Fail] = []
    picks = cands if r.get("all") else [cands[r["pick"] % len(cands)]]
    keys = []
    for (a1, a2, a3, a4) in picks:
        mm = m if (rewired and len(picks) == 1) else ml.Molecule(m)
        before = mm.coords.copy()
        target = r["target"]
        import networkx as nx

        g2 = g.copy()
        g2.remove_edge(a2, a3)
        side3 = sorted(nx.node_connected_component(g2, a3))
        other = [i for i in range(mm.n_atoms) if i not in side3]
        d0 = _dihedral(np.asarray(mm.coords, dtype=float), a1, a2, a3, a4)
        d0_impl = mm.dihedral(a1, a2, a3, a4)
        if abs((d0_impl - d0 + math.pi) % (2 * math.pi) - math.pi) > 1e-6 and abs(abs(d0) - math.pi) > 1e-6:
            # (only the magnitude convention +pi / -pi is left open at exactly trans)
            fails.append(Fail("dihedral:reported-angle-differs-from-the-geometry", f"atoms {(a1, a2, a3, a4)}: dihedral() says {d0_impl:.6f}, the coordinates give {d0:.6f}"))
        elif abs(abs(d0) - math.pi) <= 1e-6 and abs(abs(d0_impl) - math.pi) > 1e-6:
            fails.append(Fail("dihedral:reported-angle-differs-from-the-geometry", f"atoms {(a1, a2, a3, a4)}: dihedral() says {d0_impl:.6f} for an exactly trans arrangement"))
        # the four atoms are named as Atom objects or, every third candidate, as integer indices (AtomLike)
        form = (a1 + a4) % 4
        quad = (mm.atoms[a1], mm.atoms[a2], mm.atoms[a3], mm.atoms[a4]) if form >= 2 else (a1, a2, a3, a4) if form == 0 else tuple(np.array([a1, a2, a3, a4]))
        if form == 1:
            # numpy integers (np.argwhere / array indexing output): either refused before anything moves, or handled like plain ints
            try:
                mm.rotate_dihedral(quad, target)
            except (ValueError, TypeError, KeyError, IndexError):
                if not np.array_equal(mm.coords, before):
                    fails.append(Fail("dihedral:refused-call-moved-atoms", f"atoms {(a1, a2, a3, a4)} given as numpy integers"))
                continue
        else:
            mm.rotate_dihedral(quad, target)
        d1 = _dihedral(np.asarray(mm.coords, dtype=float), a1, a2, a3, a4)
        keys.append((r.get("file", "gen"), a1, a2, a3, a4, round(target, 6)))
        err = abs((d1 - target + math.pi) % (2 * math.pi) - math.pi)
        if not err < 1e-6:
            fails.append(Fail("dihedral:target-not-reached", f"atoms {(a1, a2, a3, a4)}: was {d0:.6f}, asked {target:.6f}, is {d1:.6f}"))
        if not np.array_equal(mm.coords[other], before[other]):
            fails.append(Fail("dihedral:other-side-moved", f"atoms {(a1, a2, a3, a4)}"))
        for side, nm in ((side3, "moved"), (other, "fixed")):
            db, da = _pd(before[side]), _pd(mm.coords[side])
            if db.size and np.max(np.abs(db - da)) > 1e-9 * max(1.0, np.max(db)):
                fails.append(Fail(f"dihedral:{nm}-side-distorted", f"atoms {(a1, a2, a3, a4)}"))
            vb, va = _vols(before[side]), _vols(mm.coords[side])
            msk = np.abs(vb) > 1e-6
            if msk.any() and np.any(np.sign(vb[msk]) != np.sign(va[msk])):
                fails.append(Fail(f"dihedral:{nm}-side-mirrored", f"atoms {(a1, a2, a3, a4)}"))
        # the bond itself must not change length, a3 stays on the axis
        if abs(np.linalg.norm(before[a2] - before[a3]) - np.linalg.norm(mm.coords[a2] - mm.coords[a3])) > 1e-9:
            fails.append(Fail("dihedral:central-bond-length-changed", f"atoms {(a1, a2, a3, a4)}"))
    tally(units=max(0, len(picks) - 1), nontrivial_keys=keys)
    seen, out = set(), []
    for f in fails:
        if f.sig not in seen:
            seen.add(f.sig)
            out.append(f)
    return out


def strat_dihedral(tier):
    molr = chem.molecule_recipe(max_atoms=14, max_bonds=14, attribs=False, full=False, special_coords=False, min_atoms=4).map(_spread)
    return st.fixed_dictionaries({"mol": molr, "pick": st.integers(0, 1000), "target": st.one_of(st.floats(-math.pi, math.pi), st.sampled_from([0.0, 0.3, math.pi, -math.pi / 2, 3.0, -3.1])), "flat": st.sampled_from([False, False, True]),
                                  "rewire": st.one_of(st.none(), st.tuples(st.integers(0, 100), st.integers(0, 1000)).map(list))})


def enum_dihedral(tier, shard, nshards):
    files = ["dendrobine_mol2", "fxyl_mol2", "isornitrate_mol2", "dmf_mol2", "hadd_test_mol2", "bpa_backbone_mol2", "box_backbone_mol2", "cinchonidine_query"]
    targets = [0.3, -2.5] if tier == "quick" else [0.0, 0.3, 1.0, -2.5, math.pi, -1.2]
    i = 0
    for f in files:
        for t in targets:
            if i % nshards == shard:
                yield {"file": f, "all": True, "target": t}
            i += 1


# ---------------------------------------------------------------- alignment
def kabsch(P, Q):
    """rotation R minimising |P @ R - Q| (no centring), and the rmsd it achieves"""
    P, Q = np.asarray(P, dtype=float), np.asarray(Q, dtype=float)
    H = P.T @ Q
    U, S, Vt = np.linalg.svd(H)
    d = np.sign(np.linalg.det(U @ Vt))
    D = np.diag([1.0, 1.0, d])
    R = U @ D @ Vt
    return R, float(np.sqrt(np.mean(np.sum((P @ R - Q) ** 2, axis=1))))


def kabsch_centering(P, Q):
    """like rmsd.kabsch_weighted as wrapped by `molli align`: centres both point sets on their centroids internally,
    returns the rotation and the rmsd of the centred sets (callers hand in a reference centred at the origin)"""
    P, Q = np.asarray(P, dtype=float), np.asarray(Q, dtype=float)
    return kabsch(P - P.mean(axis=0), Q - Q.mean(axis=0))


def check_align(r) -> list[Fail]:
    import molli as ml

    fails: list[Fail] = []
    rng = np.random.default_rng(r["rseed"])
    ref_mol = chem.build_molecule(r["ref"], ml.Molecule)
    k = ref_mol.n_atoms
    if k < 3:
        return []
    ref_mol.translate(-ref_mol.centroid())
    refsub = ref_mol.substructure(list(range(k)))
    big = r["mol"]
    n = len(big["atoms"])
    if n < k:
        return []
    # index sets: where the reference part is embedded (identity order, and a permuted alternative)
    idx0 = [i % n for i in r["embed"]][:k]
    if len(set(idx0)) < k:
        idx0 = list(range(k))
    idx_sets = [idx0]
    if r["two_sets"]:
        # a second candidate mapping over the same atoms (as get_substr_indices yields for symmetric cores); either may come first
        alt = idx0[1:] + idx0[:1]
        idx_sets = [alt, idx0] if r.get("alt_first") else [idx0, alt]
    func = kabsch_centering if r.get("func") == "centering" else kabsch
    vec = None if r["vec"] is None else list(r["vec"])
    idx1 = None
    if r.get("two_sites") and n >= 2 * k and (r.get("func") != "centering" or r.get("two_sites") == "any_func"):
        # the core occurs at a SECOND site over other atoms (as get_substr_indices yields for a molecule with two such groups):
        # the first site is the noisy embedding, the second an exact copy placed elsewhere; whichever site is chosen, the rmsd
        # that is returned must be the one the final coordinates show
        rest_ = [i for i in range(n) if i not in idx0][:k]
        idx1 = rest_
        idx_sets = idx_sets + [idx1] if not r.get("alt_first") else [idx1] + idx_sets

    def make_coords(pose_seed):
        c = np.array(big["coords"], dtype=float).reshape((n, 3)).copy()
        c[idx0] = np.array(ref_mol.coords) + rng0.normal(scale=r["noise"], size=(k, 3))
        if idx1 is not None:
            c[idx1] = np.array(ref_mol.coords) @ _proper_R(r["rseed"] + 5) + np.array([3.5, -2.0, 1.5])
        Rp = _proper_R(pose_seed)
        return c @ Rp + np.random.default_rng(pose_seed).normal(size=3) * 5

    if r["kind"] == "ensemble_selfref":
        # the reference is a LIVE view of the ensemble that is being aligned: the core of its own conformer 1 (every conformer centred on
        # its core first, as the docstring asks).  What counts is the reference as it was when the call was made.
        rng0 = np.random.default_rng(r["rseed"])
        nc = 3
        confs = []
        for j in range(nc):
            rng0 = np.random.default_rng(r["rseed"] + j)     # (each conformer its own small distortion of the core)
            c_ = make_coords(r["pose1"] + 17 * j)
            confs.append(c_ - c_[idx0].mean(axis=0))
        e = chem.build_ensemble(dict(big, confs=[c.tolist() for c in confs], weights=[1.0] * nc, conf_charges=[[0.0] * n] * nc))
        ref0 = np.array(e.coords[1][idx0], dtype=float)
        refview = e[1].substructure(idx0)
        got = e.align_to_ref_coords(func, [idx0], refview, vec)
        final = np.array(e.coords, dtype=float)
        shift = np.array(vec) if vec is not None else 0
        for j in range(nc):
            ach = float(np.sqrt(np.mean(np.sum((final[j][idx0] - shift - ref0) ** 2, axis=1))))
            if abs(got[j] - ach) > 1e-6:
                fails.append(Fail("align:ensemble:reported-rmsd-is-not-the-achieved-one:reference-is-a-view-of-the-ensemble", f"conformer {j}: returned {got[j]:.8f}, recomputed {ach:.8f} (vec {vec})"))
                break
        return fails
    results = []
    for pose in (r["pose1"], r["pose2"]):
        rng0 = np.random.default_rng(r["rseed"])   # same noise for both poses
        if r["kind"] == "molecule":
            m = chem.build_molecule(dict(big, coords=make_coords(pose).tolist()), ml.Molecule)
            got = m.align_to_ref_coords(func, idx_sets, refsub, vec)
            final = m.coords.copy()
            sub = final[idx0] - (np.array(vec) if vec is not None else 0)
            ach = min(float(np.sqrt(np.mean(np.sum((final[ix] - (np.array(vec) if vec is not None else 0) - np.array(ref_mol.coords)) ** 2, axis=1)))) for ix in idx_sets)
            if abs(got - ach) > 1e-6:
                fails.append(Fail("align:molecule:reported-rmsd-is-not-the-achieved-one", f"returned {got:.8f}, recomputed {ach:.8f}"))
            results.append((got, final))
        else:
            nc = 2
            confs = [make_coords(pose + 17 * j) for j in range(nc)] if r["kind"] == "ensemble_diffpose" else [make_coords(pose)] * nc
            e = chem.build_ensemble(dict(big, confs=[c.tolist() for c in confs], weights=[1.0] * nc, conf_charges=[[0.0] * n] * nc))
            got = e.align_to_ref_coords(func, idx_sets, refsub, vec)
            final = e.coords.copy()
            if len(got) != nc:
                fails.append(Fail("align:ensemble:rmsd-list-length", f"{len(got)}"))
                break
            for j in range(nc):
                ach = min(float(np.sqrt(np.mean(np.sum((final[j][ix] - (np.array(vec) if vec is not None else 0) - np.array(ref_mol.coords)) ** 2, axis=1)))) for ix in idx_sets)
                if abs(got[j] - ach) > 1e-6:
                    fails.append(Fail("align:ensemble:reported-rmsd-is-not-the-achieved-one", f"conformer {j}: returned {got[j]:.8f}, recomputed {ach:.8f}"))
                    break
            results.append((np.array(got), final))
    if len(results) == 2 and not fails:
        (g1, f1), (g2, f2) = results
        if r["kind"] != "ensemble_diffpose":
            if np.max(np.abs(np.asarray(g1) - np.asarray(g2))) > 1e-6:
                fails.append(Fail(f"align:{r['kind']}:rmsd-depends-on-initial-pose", f"{g1} vs {g2}"))
            elif np.max(np.abs(f1 - f2)) > 1e-5 * max(1.0, float(np.max(np.abs(f1)))):
                fails.append(Fail(f"align:{r['kind']}:final-coordinates-depend-on-initial-pose", f"max dev {np.max(np.abs(f1 - f2)):.3e}"))
    return fails


def classify_align(r):
    return len(r["ref"]["atoms"]) >= 4, ["kind=" + r["kind"], ("two_index_sets_best_" + ("second" if r.get("alt_first") else "first")) if r["two_sets"] else "one_index_set", "vec" if r["vec"] is not None else "no_vec", "func=" + r.get("func", "plain")] + (["second_site_over_other_atoms"] if r.get("two_sites") and len(r["mol"]["atoms"]) >= 2 * len(r["ref"]["atoms"]) and r.get("func") != "centering" else [])


def strat_align(tier):
    ref = chem.molecule_recipe(max_atoms=7, max_bonds=0, attribs=False, full=False, special_coords=False, min_atoms=3).map(_spread)
    big = chem.molecule_recipe(max_atoms=14, max_bonds=6, attribs=False, full=False, special_coords=False, min_atoms=7).map(_spread)
    return st.fixed_dictionaries({
        "kind": st.sampled_from(["molecule", "ensemble", "ensemble_diffpose", "ensemble_selfref"]), "ref": ref, "mol": big,
        "embed": st.lists(st.integers(0, 40), min_size=7, max_size=7, unique=True), "two_sets": st.booleans(),
        "vec": st.one_of(st.none(), st.lists(st.floats(-5, 5), min_size=3, max_size=3)),
        "alt_first": st.booleans(), "func": st.sampled_from(["plain", "centering"]), "two_sites": st.booleans(),
        "noise": st.sampled_from([0.0, 0.01, 0.2]), "rseed": st.integers(0, 10**6), "pose1": st.integers(0, 10**6), "pose2": st.integers(0, 10**6),
    })


LEGS = [
    Leg("vecrot", check_vecrot, classify_vecrot, strategy=strat_vecrot, n={"quick": 12000, "thorough": 300000}, shards={"quick": 16, "thorough": 32},
        rule="random v1, v2 (general position, exactly parallel, v2 = -v1 + eps*d with eps in {0} U 1e-12..1e-3), tol in {default, 1e-6, 1e-8}, perturbed np.random state; every case non-trivial; classes by eps decade must be populated"),
    Leg("axisrot", check_axisrot, lambda r: (True, []), strategy=strat_axisrot, n={"quick": 6000, "thorough": 100000}, shards={"quick": 8, "thorough": 16},
        rule="random axes and angles incl. 0, +-pi, +-pi/2, 2pi+x"),
    Leg("rigid", check_rigid, classify_rigid, strategy=strat_rigid, n={"quick": 1500, "thorough": 30000}, shards={"quick": 16, "thorough": 32},
        rule="generated molecules / ensembles (2-12/30 atoms, 1-4 conformers) x 10 operations; harness-made proper rotations (QR); non-trivial = >=4 atoms"),
    Leg("dihedral_files", check_dihedral, lambda r: (False, ["file=" + r["file"]]), enumerate=enum_dihedral, exhaustive=True, shards={"quick": 16, "thorough": 48},
        rule="EVERY acyclic (bridge) bond a2-a3 of 8 bundled mol2 files with up to 2x2 neighbour choices whose bond angles satisfy |sin|>0.1, 2 (quick) / 6 (thorough) target angles; evaluations = (bond, neighbours, target) tuples"),
    Leg("dihedral_gen", check_dihedral, lambda r: (True, []), strategy=strat_dihedral, n={"quick": 800, "thorough": 20000}, shards={"quick": 16, "thorough": 32},
        rule="generated 4-14 atom graphs in general position, one suitable bridge bond per case, random target"),
    Leg("align", check_align, classify_align, strategy=strat_align, n={"quick": 700, "thorough": 15000}, shards={"quick": 16, "thorough": 32},
        rule="reference = 3-7 atom generated geometry (centred), embedded with noise {0, 0.01, 0.2} in a 7-14 atom molecule, two random initial poses; harness Kabsch in molli's P@R~Q convention; 1-2 index sets; optional final vec; Molecule and ConformerEnsemble (same and different poses per conformer); non-trivial = reference has >=4 atoms"),
]
