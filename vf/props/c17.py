"""C17 — a job runs exactly what was asked and reports exactly what happened.

Legs
  bind    every sequence (length <= 3 quick / <= 4 thorough) of job accesses over 3 driver instances x {single, vectorised}
          x {used at once, handle kept and used at the end}: the prepared JobInput must carry THAT driver's
          executable / nprocs / envars.  Harness-defined DriverBase subclass and the real XTBDriver (stub executables).
  exec    generated JobInputs (1-4 sh commands, named / unnamed, first failure at every position, text / binary
          input files, env overrides, every subset of return files missing) executed by run_local() in a forked
          child (quick) and by the real _molli_run executable (a few in quick, all in thorough)
"""
from __future__ import annotations

import itertools
import os
import shlex
import shutil
import stat
import subprocess
import sys

from hypothesis import strategies as st

from vf.core import Fail, Leg, HarnessError, tally, exc_sig

LEVEL = "fault_enumeration"
ASSUMPTIONS = [
    "zero-command jobs are outside the quantifier (1..4 commands); command names are distinct",
    "the external programs are /bin/sh scripts (the property is about the runner, not about xtb)",
    "a named command's own capture files <name>.out / <name>.err live in the job directory by design and are allowed in the listing",
]
_counter = itertools.count()


def _dir(tag):
    d = os.path.join(os.environ["VF_SCRATCH"], "c17", f"{os.getpid()}-{tag}{next(_counter)}")
    os.makedirs(d, exist_ok=True)
    return d


# ---------------------------------------------------------------- binding
_DRV = {}


def _drivers(d):
    """three instances with distinct settings of the harness driver class and of XTBDriver"""
    import molli as ml
    from molli.pipeline.driver import DriverBase
    from molli.pipeline.job import Job, JobInput
    from molli.pipeline.xtb import XTBDriver

    class HDriver(DriverBase):
        default_executable = "sh"

        @Job(return_files=("r.txt",)).prep
        def work(self, M, tag="t"):
            return JobInput(M.name, commands=[(f"{self.executable} --np {self.nprocs} --tag {tag}", "main")], files={"in.txt": b"x"},
                            return_files=self.return_files, envars=dict(self.envars))

        @work.post
        def work(self, out, M, **kw):
            return M

        work_ens = Job.vectorize(work)

        @work_ens.reduce
        def work_ens(self, outputs, ens, *a, **kw):
            return ens

    exes = []
    for i in range(3):
        p = os.path.join(d, f"exe{i}")
        with open(p, "w") as f:
            f.write("#!/bin/sh\nexit 0\n")
        os.chmod(p, 0o755)
        exes.append(p)
    # processor counts below and far above what this machine has (jobs are prepared here and run elsewhere)
    settings = [dict(executable=exes[i], nprocs=[2, 37, 200][i], envars={"WHO": f"driver{i}", f"ONLY{i}": "1"}) for i in range(3)]
    return HDriver, XTBDriver, settings


def check_bind(r) -> list[Fail]:
    import molli as ml

    d = _dir("b")
    fails: list[Fail] = []
    try:
        HDriver, XTBDriver, settings = _drivers(d)
        cls = HDriver if r["cls"] == "harness" else XTBDriver
        drivers = {}
        mol = ml.Molecule(["O", "H", "H"], name="w", coords=[[0, 0, 0], [0.9, 0, 0], [0, 0.9, 0]])
        ens = ml.ConformerEnsemble(mol, n_conformers=2, coords=[[[0, 0, 0], [0.9, 0, 0], [0, 0.9, 0]]] * 2)

        def get(di):
            if di not in drivers:
                drivers[di] = cls(**settings[di])
            return drivers[di]

        def jobattr(drv, vec):
            if cls is HDriver:
                return drv.work_ens if vec else drv.work
            return drv.optimize_ens if vec else drv.optimize_m

        nverify = [0]

        def verify(di, vec, job, when):
            # the caller's own argument: none / positional / keyword (rotating), must arrive in the command of every prepared input
            form = nverify[0] % 3 if cls is HDriver else 0
            nverify[0] += 1
            pa, kwa, tag = [((), {}, "t"), (("TAGP",), {}, "TAGP"), ((), {"tag": "TAGK"}, "TAGK")][form]
            try:
                prep = job.prepare(ens if vec else mol, *pa, **kwa)
                inputs = list(prep) if vec else [prep]
            except Exception as e:
                s = exc_sig(e)
                if s is None:
                    raise
                fails.append(Fail(f"prepare-raises:{s}", f"{when}: {e!r}"[:300]))
                return
            want = settings[di]
            if vec and len(inputs) != 2:
                fails.append(Fail("vectorised-prepare-wrong-length", f"{when}: {len(inputs)} inputs for 2 conformers"))
            for inp in inputs:
                cmd = inp.commands[0][0]
                toks = shlex.split(cmd)
                if toks[0] != want["executable"]:
                    fails.append(Fail("wrong-executable", f"{when}: command runs {toks[0]!r}, driver {di} has {want['executable']!r}"))
                np_flag = "--np" if cls is HDriver else "-P"
                got_np = toks[toks.index(np_flag) + 1] if np_flag in toks else None
                if got_np != str(want["nprocs"]):
                    fails.append(Fail("wrong-nprocs", f"{when}: {np_flag} {got_np}, driver {di} has {want['nprocs']}"))
                if cls is HDriver and (toks[toks.index("--tag") + 1] if "--tag" in toks else None) != tag:
                    fails.append(Fail("callers-argument-not-in-the-prepared-input", f"{when}: argument given {['not at all', 'positionally', 'by keyword'][form]} ({tag!r}); command is {cmd!r}"))
                if cls is HDriver and inp.jid != "w":
                    fails.append(Fail("prepared-input-built-from-the-wrong-object", f"{when}: jid {inp.jid!r}"))
                if cls is HDriver and inp.envars != want["envars"]:
                    fails.append(Fail("wrong-environment", f"{when}: envars {inp.envars}, driver {di} has {want['envars']}"))
            if cls is not HDriver:
                # the environment of a real driver's job is whatever the bound job reports
                if dict(job.envars) != want["envars"]:
                    fails.append(Fail("wrong-environment", f"{when}: job.envars {dict(job.envars)}, driver {di} has {want['envars']}"))

        held = []
        settings = [dict(s_) for s_ in settings]
        for k, (di, vec, hold) in enumerate(r["events"]):
            if vec == "reconf":
                # the driver instance is reconfigured in place by its owner: jobs taken from it afterwards reflect the new values
                # (handles taken from this driver earlier are not judged: which values they should carry is not stated anywhere)
                drv = get(di)
                settings[di] = dict(executable=settings[(di + 1) % 3]["executable"], nprocs=settings[di]["nprocs"] + 10, envars=dict(settings[di]["envars"], RECONF=str(k)))
                drv.executable, drv.nprocs, drv.envars = settings[di]["executable"], settings[di]["nprocs"], dict(settings[di]["envars"])
                held = [h_ for h_ in held if h_[0] != di]
                continue
            job = jobattr(get(di), vec)
            if hold:
                held.append((di, vec, job, k))
            else:
                verify(di, vec, job, f"event {k}: driver{di}.{'vec' if vec else 'single'} used at once (history {r['events'][:k]})")
        for (di, vec, job, k) in (held if not r.get("reverse") else held[::-1]):
            verify(di, vec, job, f"handle taken at event {k} from driver{di} ({'vec' if vec else 'single'}), used after all {len(r['events'])} events {r['events']}")
    finally:
        shutil.rmtree(d, ignore_errors=True)
    seen, out = set(), []
    for f in fails:
        if f.sig not in seen:
            seen.add(f.sig)
            out.append(f)
    return out


def classify_bind(r):
    ds = {e[0] for e in r["events"]}
    return len(ds) >= 2, ["cls=" + r["cls"], f"drivers_used={len(ds)}", "has_held_handle" if any(e[2] for e in r["events"]) else "direct_only"] + (["driver_reconfigured_in_place"] if any(e[1] == "reconf" for e in r["events"]) else [])


def enum_bind(tier, shard, nshards):
    L = 3 if tier == "quick" else 4
    alpha = [[d, v, h] for d in range(3) for v in (False, True) for h in (False, True)] + [[d, "reconf", False] for d in range(2)]
    i = 0
    for cls in ("harness", "xtb"):
        for n in range(1, L + 1):
            for seq in itertools.product(alpha, repeat=n):
                for rev in ((False, True) if sum(1 for e in seq if e[2]) >= 2 else (False,)):
                    if i % nshards == shard:
                        yield {"cls": cls, "events": [list(e) for e in seq], "reverse": rev}
                    i += 1


# ---------------------------------------------------------------- execution
def _sh_quote(s):
    return shlex.quote(s)


def build_job(r, ext):
    """returns (JobInput, expectation dict)"""
    from molli.pipeline.job import JobInput

    files = {}
    for i, (kind, size) in enumerate(r["files"]):
        if kind == "text":
            files[f"in{i}.txt"] = ("line é %d\n" % i) * (size % 7 + 1) + ("tail\r\nno newline at end" if size % 2 else "")
        else:
            files[f"in{i}.bin"] = b"\r\n\x00\xff\n\r" + bytes((j * 31 + i) % 256 for j in range(size % 300)) + b"\r\n"
    ncmd = len(r["cmds"])
    fail_at = r["fail_at"] if r["fail_at"] is not None and r["fail_at"] < ncmd else None
    rets = [f"ret{k}.dat" for k in range(len(r["rets"]))]
    commands = []
    # the job OVERRIDES PATH, and its programs are named without a directory: the program found through the job's PATH runs, although the
    # runner's own (inherited) PATH knows a program of the same name
    path_tool = bool(r.get("path_tool")) and r["env"] is not None
    if path_tool:
        for which in ("sysbin", "custombin"):
            os.makedirs(os.path.join(ext, which), exist_ok=True)
            tp = os.path.join(ext, which, "vfsh")
            with open(tp, "w") as fh:
                fh.write(f"#!/bin/sh\necho {which} >> {_sh_quote(ext + '/tool.log')}\nexec sh \"$@\"\n")
            os.chmod(tp, 0o755)
    for i, c in enumerate(r["cmds"]):
        parts = [
            f"echo CMD{i} >> {_sh_quote(ext + '/marker.log')}",
            f"pwd > {_sh_quote(ext + f'/pwd_{i}')}",
            f"ls -A1 > {_sh_quote(ext + f'/listing_{i}')}",
            f"mkdir -p {_sh_quote(ext + f'/snap_{i}')}",
            f"for f in in*; do [ -e \"$f\" ] && cp \"$f\" {_sh_quote(ext + f'/snap_{i}/')}; done",
            f"printf '%s|%s|%s' \"$VF_A\" \"$VF_B\" \"$VF_C\" > {_sh_quote(ext + f'/env_{i}')}",
        ]
        if c["out"]:
            parts.append(f"printf '%s' {_sh_quote(c['out'])}")
        if c["err"]:
            parts.append(f"printf '%s' {_sh_quote(c['err'])} >&2")
        for k, rt_ in enumerate(r["rets"]):
            at, missing = rt_[0], rt_[1]
            if at % ncmd == i and not missing:
                if len(rt_) > 2 and rt_[2]:
                    parts.append(f": > ret{k}.dat")          # the requested file exists and is EMPTY (a marker file, no hits)
                else:
                    parts.append(f"printf 'RET{k}\\000\\377 payload %s' {k} > ret{k}.dat")
        if fail_at == i and c.get("sig"):
            # this command fails by DYING from a signal (out-of-memory killer, segmentation fault): negative return code
            parts.append(f"kill -{['KILL', 'SEGV', 'TERM'][c['sig'] - 1]} $$; sleep 5")
        parts.append(f"exit {c['code'] if fail_at == i else 0}")
        script = "; ".join(parts)
        if fail_at == i and c.get("noexe"):
            # the failure of this command is that its program cannot be started at all
            commands.append(("/nonexistent/vf-missing-program --flag", f"c{i}" if c["named"] else None))
        else:
            commands.append((f"{'vfsh' if path_tool else 'sh'} -c {_sh_quote(script)}", f"c{i}" if c["named"] else None))
    envars = {"VF_A": r["env"][0], "VF_B": r["env"][1]} if r["env"] is not None else None
    if path_tool:
        envars["PATH"] = os.path.join(ext, "custombin") + os.pathsep + os.environ.get("PATH", "")
    inp = JobInput(jid=r["jid"], commands=commands, files=files or None, return_files=tuple(rets), envars=envars)
    return inp, dict(files=files, fail_at=fail_at, rets=rets, ncmd=ncmd, envars=envars)


def run_job(inp, d, real, rel=False):
    """executes; returns (exit status, path of .out).  rel: the job file, output and scratch directories are named relative to the working directory"""
    jobf = os.path.join(d, "the_job.inp")
    inp.dump(jobf)
    outdir = os.path.join(d, "outputs")
    scratch = os.path.join(d, "scratch")
    a_job, a_out, a_scr = ("the_job.inp", "outputs", os.path.join(".", "scratch")) if rel else (jobf, outdir, scratch)
    if real:
        exe = os.path.join(os.path.dirname(sys.executable), "_molli_run")
        p = subprocess.run([exe, a_job, "-o", a_out, "-s", a_scr], capture_output=True, text=True, timeout=300, env=dict(os.environ), cwd=d)
        return p.returncode, os.path.join(outdir, "the_job.out"), scratch
    pid = os.fork()
    if pid == 0:
        code = 70
        try:
            devnull = os.open(os.devnull, os.O_WRONLY)
            os.dup2(devnull, 2)
            os.chdir(d)
            sys.argv = ["_molli_run", a_job, "-o", a_out, "-s", a_scr]
            from molli.pipeline.runner import run_local

            try:
                run_local()
                code = 0
            except SystemExit as e:
                code = e.code if isinstance(e.code, int) else (0 if e.code is None else 1)
            except Exception:
                code = 1      # what the interpreter does with an uncaught exception in the real _molli_run
        except BaseException:
            code = 71
        finally:
            os._exit(code)
    _, status = os.waitpid(pid, 0)
    return os.waitstatus_to_exitcode(status), os.path.join(outdir, "the_job.out"), scratch


def check_exec(r) -> list[Fail]:
    from molli.pipeline.job import JobOutput

    d = _dir("x")
    ext = os.path.join(d, "ext")
    os.makedirs(ext)
    fails: list[Fail] = []
    old_env = {k: os.environ.get(k) for k in ("VF_A", "VF_B", "VF_C", "PATH")}
    os.environ["VF_A"], os.environ["VF_B"], os.environ["VF_C"] = "parentA", "parentB", "inherited, never overridden"
    if r.get("path_tool") and r["env"] is not None:
        os.environ["PATH"] = os.path.join(ext, "sysbin") + os.pathsep + os.environ.get("PATH", "")
    try:
        inp, exp = build_job(r, ext)
        status, outf, scratch = run_job(inp, d, r["real"], rel=bool(r.get("rel")))
        via = "_molli_run" if r["real"] else "run_local(fork)"
        if status in (70, 71) and not r["real"]:
            raise HarnessError("forked run_local could not start")
        ncmd, fa = exp["ncmd"], exp["fail_at"]
        ran = list(range(ncmd if fa is None else fa + 1))
        noexe = fa is not None and bool(r["cmds"][fa].get("noexe"))
        if noexe:
            ran = ran[:-1]     # the unstartable command leaves no marker; nothing after it may run
        # ---- order, stop at first failure
        marker = open(os.path.join(ext, "marker.log")).read().split() if os.path.exists(os.path.join(ext, "marker.log")) else []
        if marker != [f"CMD{i}" for i in ran]:
            kind = "continued-after-failure" if len(marker) > len(ran) else "commands-skipped-or-reordered"
            fails.append(Fail(f"command-sequence-wrong:{kind}", f"{via}: ran {marker}, expected {[f'CMD{i}' for i in ran]} (first failure at {fa})"))
        # ---- private directory with exactly the input files, env
        cwds = set()
        for i in ran:
            if not os.path.exists(os.path.join(ext, f"pwd_{i}")):
                continue
            cwd = open(os.path.join(ext, f"pwd_{i}")).read().strip()
            cwds.add(cwd)
            if not os.path.realpath(cwd).startswith(os.path.realpath(scratch) + os.sep):
                fails.append(Fail("command-not-run-under-scratch-dir", f"{via}: command {i} ran in {cwd}"))
            listing = set(open(os.path.join(ext, f"listing_{i}")).read().split("\n")) - {""}
            allowed = set(exp["files"]) | {f"c{j}.{e}" for j in range(i + 1) if r["cmds"][j]["named"] for e in ("out", "err")} | set(exp["rets"])
            if not set(exp["files"]) <= listing:
                fails.append(Fail("input-file-not-materialised", f"{via}: command {i} sees {sorted(listing)}, missing {sorted(set(exp['files']) - listing)}"))
            if listing - allowed:
                fails.append(Fail("unexpected-file-in-job-directory", f"{via}: command {i} sees {sorted(listing - allowed)}"))
            for fn, content in exp["files"].items():
                p = os.path.join(ext, f"snap_{i}", fn)
                want = content.encode() if isinstance(content, str) else content
                if not os.path.exists(p) or open(p, "rb").read() != want:
                    fails.append(Fail("input-file-bytes-differ", f"{via}: {fn} at command {i}"))
                    break
            envv = open(os.path.join(ext, f"env_{i}")).read()
            want_env = (f"{r['env'][0]}|{r['env'][1]}" if r["env"] is not None else "parentA|parentB") + "|inherited, never overridden"
            if envv != want_env:
                fails.append(Fail("environment-not-as-requested", f"{via}: command {i} saw {envv!r}, expected {want_env!r}"))
        if len(cwds) > 1:
            fails.append(Fail("commands-ran-in-different-directories", f"{via}: {cwds}"))
        if r.get("path_tool") and r["env"] is not None:
            tl = open(os.path.join(ext, "tool.log")).read().split() if os.path.exists(os.path.join(ext, "tool.log")) else []
            if any(t != "custombin" for t in tl) or len(tl) != len(ran):
                fails.append(Fail("program-not-the-one-on-the-jobs-PATH", f"{via}: the job puts its own directory first on PATH; programs run came from {tl}"))
        # ---- the report
        if noexe:
            # only what the statement says about failures: non-zero exit, nothing after the failure, no residue
            if status == 0:
                fails.append(Fail("exit-status-wrong:zero-although-failed", f"{via}: a command whose program cannot be started, exit 0"))
        elif not os.path.exists(outf):
            fails.append(Fail("no-output-file-written", f"{via}: exit {status}"))
        else:
            out = JobOutput.load(outf)
            exp_out = {f"c{i}": r["cmds"][i]["out"] for i in ran if r["cmds"][i]["named"]}
            exp_err = {f"c{i}": r["cmds"][i]["err"] for i in ran if r["cmds"][i]["named"]}
            if (out.stdouts or {}) != exp_out:
                fails.append(Fail("stdout-capture-wrong", f"{via}: {out.stdouts} vs {exp_out}"))
            if (out.stderrs or {}) != exp_err:
                fails.append(Fail("stderr-capture-wrong", f"{via}: {out.stderrs} vs {exp_err}"))
            exp_files = {}
            for k, rt_ in enumerate(r["rets"]):
                at, missing = rt_[0], rt_[1]
                if not missing and at % ncmd in ran:
                    exp_files[f"ret{k}.dat"] = b"" if (len(rt_) > 2 and rt_[2]) else b"RET%d\x00\xff payload %d" % (k, k)
            if (out.files or {}) != exp_files:
                fails.append(Fail("returned-files-wrong", f"{via}: got {sorted(out.files or {})} sizes {[len(v) for v in (out.files or {}).values()]}, expected {sorted(exp_files)}"))
            ih = out.input_hash
            if (ih.encode() if isinstance(ih, str) else ih) != inp.hash:
                fails.append(Fail("input-hash-wrong", f"{via}"))
            all_ok = fa is None and set(exp_files) == set(exp["rets"])
            if (status == 0) != all_ok:
                fails.append(Fail("exit-status-wrong:" + ("zero-although-failed" if status == 0 else "nonzero-although-ok"), f"{via}: exit {status}; first failing command {fa}, files returned {sorted(exp_files)} of {exp['rets']}"))
        # ---- no residue
        left = os.listdir(scratch) if os.path.isdir(scratch) else []
        if left:
            fails.append(Fail("scratch-residue", f"{via}: {left}"))
    finally:
        for k, v in old_env.items():
            if v is None:
                os.environ.pop(k, None)
            else:
                os.environ[k] = v
        shutil.rmtree(d, ignore_errors=True)
    seen, out_ = set(), []
    for f in fails:
        if f.sig not in seen:
            seen.add(f.sig)
            out_.append(f)
    return out_


def classify_exec(r):
    ncmd = len(r["cmds"])
    fa = r["fail_at"] if r["fail_at"] is not None and r["fail_at"] < ncmd else None
    miss = any(m or (fa is not None and at % ncmd > fa) for at, m, *_ in r["rets"])
    binf = any(k == "bin" for k, _ in r["files"])
    lab = (["failure=program_cannot_be_started"] if fa is not None and r["cmds"][fa].get("noexe") else ["failure=killed_by_signal"] if fa is not None and r["cmds"][fa].get("sig") else []) + [f"ncmd={ncmd}", f"fail_at={fa}", "real" if r["real"] else "fork", "env_override" if r["env"] else "env_inherited"] + (["missing_return_file"] if miss else []) + (["binary_file"] if binf else [])
    return (ncmd >= 2 and fa is not None and fa > 0) or miss or binf, lab


def strat_exec(tier):
    # (texts with significant whitespace INSIDE a quoted argument: runs of blanks, tabs, line breaks)
    txt = st.one_of(st.text("abcXYZ 019_-:;,.é", max_size=12), st.sampled_from(["a  b", "col1\tcol2", "line1\nline2", "  lead", "x \t y  z"]))
    cmd = st.fixed_dictionaries({"named": st.booleans(), "out": txt, "err": txt, "code": st.integers(1, 120), "noexe": st.sampled_from([False, False, False, True]), "sig": st.sampled_from([0, 0, 0, 1, 2, 3])})
    return st.fixed_dictionaries({
        "jid": st.sampled_from(["job", "j-1", "mol_A"]), "cmds": st.lists(cmd, min_size=1, max_size=4),
        "fail_at": st.one_of(st.none(), st.integers(0, 3)),
        "files": st.lists(st.tuples(st.sampled_from(["text", "bin"]), st.integers(0, 400)).map(list), max_size=3),
        "rets": st.lists(st.tuples(st.integers(0, 3), st.booleans(), st.sampled_from([False, False, True])).map(list), max_size=3),
        "env": st.one_of(st.none(), st.tuples(st.sampled_from(["jobA", "x y", ""]), st.sampled_from(["jobB", "é"])).map(list)),
        "real": st.just(False) if tier == "quick" else st.just(True), "rel": st.booleans(), "path_tool": st.sampled_from([False, False, True]),
    })


def enum_exec_real(tier, shard, nshards):
    base = {"jid": "job", "files": [["text", 3], ["bin", 257]], "env": ["jobA", "jobB"], "real": True}
    cmds = [{"named": True, "out": "o  0\tx", "err": "e0\n  e", "code": 3}, {"named": False, "out": "o1", "err": "", "code": 4}, {"named": True, "out": "", "err": "e2", "code": 5}]
    cases = []
    for fa in (None, 0, 1, 2):
        for rets in ([[2, False]], [[0, False], [2, True]], []):
            cases.append(dict(base, cmds=cmds, fail_at=fa, rets=rets, rel=bool(len(cases) % 2), path_tool=bool(len(cases) % 3 == 1)))
    for i, c in enumerate(cases):
        if i % nshards == shard:
            yield c


LEGS = [
    Leg("bind", check_bind, classify_bind, enumerate=enum_bind, exhaustive=True, shards={"quick": 16, "thorough": 48},
        rule="ALL sequences of <=3 (quick) / <=4 (thorough) job accesses over {driver 0,1,2} x {single, vectorised} x {used at once, handle kept until the end (both orders)} for a harness DriverBase subclass and for XTBDriver (stub executables); "
             "non-trivial = >=2 different driver instances involved"),
    Leg("exec_real", check_exec, classify_exec, enumerate=enum_exec_real, exhaustive=True, shards={"quick": 12, "thorough": 12},
        rule="12 fixed jobs (3 commands; first failure at none/0/1/2 x return-file plans) through the real _molli_run executable"),
    Leg("exec", check_exec, classify_exec, strategy=strat_exec, n={"quick": 400, "thorough": 1500}, shards={"quick": 16, "thorough": 16},
        rule="generated jobs: 1-4 sh commands (named / unnamed, stdout / stderr text), first failing command at every position or none, 0-3 text / binary input files, env override (optionally of PATH itself, with programs named without a directory) or inherited, 0-3 requested files each created at some command or missing, job / output / scratch paths absolute or relative to the working directory; "
             "run_local() in a forked child (quick) / real _molli_run (thorough); non-trivial = failure not at command 0 of >=2, or a missing return file, or a binary file"),
]
