"""C02 — a library file is an insert-only key-value map over any operation history.

Legs
  raw_exh   bounded-exhaustive op sequences on raw UKVFile handles (2 handles, 14 letters)
  raw_rand  random op sequences (3 handles, full key/value alphabet, headers) via Hypothesis
  coll      random session histories on Collection+UkvCollectionBackend (1-3 handles, bufsizes)
Oracle: reference model (insertion-ordered dict + per-handle view).
"""
from __future__ import annotations

import itertools
import os
import struct

from hypothesis import strategies as st

from vf.core import Fail, Leg, HarnessError

LEVEL = "exploration"
ASSUMPTIONS = [
    "at most one raw UKVFile handle is open for writing at a time (mutual exclusion is C04's subject)",
    "mode 'w' (truncation) is only used to create the file",
    "sessions of one process do not overlap",
]

# ---------------------------------------------------------------- alphabets
KEYS = [b"a", b"b", b"\x00\xff\n", b"k" * 255, b"K" * 256, b"c", b""]   # the empty key is an ordinary key
VALS = [b"", b"x", b"hello", b"\x00" * 9000, bytes(range(256)) * 256 + b"!" * 0, b"v" * 65535, b"w" * 65536, b"z" * 70000]
VALS[4] = (bytes(range(256)) * 40)[:9001]
VALS.append(b"q" * 5000)   # two of these straddle the 8 kB io buffer: a torn record reaches the disk
H1S = [None, b"ML10UKV01", b"0123456789abcdef", b"A"]
H2S = [None, b"", b"a comment", b"\x00\x01" * 300, b"  indented\nremark\n", b"\n"]
B0S = [None, b"", b"\x93\x01\x02\x03", b"d" * 5000, b" \x90\n", b"\x00\x00"]

_counter = itertools.count()


def _path(tag: str) -> str:
    d = os.path.join(os.environ["VF_SCRATCH"], "c02", str(os.getpid()))
    os.makedirs(d, exist_ok=True)
    return os.path.join(d, f"{tag}{next(_counter)}.ukv")


def _rm(p):
    try:
        os.unlink(p)
    except OSError:
        pass


# ---------------------------------------------------------------- raw layer
class _H:
    __slots__ = ("obj", "open", "mode", "view")

    def __init__(self):
        self.obj = None
        self.open = False
        self.mode = None
        self.view = {}  # key -> value (ordered)


def check_raw(recipe) -> list[Fail]:
    from molli.storage.ukvfile import UKVFile

    fails: list[Fail] = []
    hdr = recipe.get("hdr", [0, 0, 0])
    h1, h2, b0 = H1S[hdr[0]], H2S[hdr[1]], B0S[hdr[2]]
    path = _path("raw")
    committed: dict[bytes, bytes] = {}   # visible to any reader for sure
    now: dict[bytes, bytes] = {}         # includes the open writer's puts
    hs = [_H() for _ in range(3)]
    try:
        w = hs[0]
        w.obj = UKVFile(path, recipe.get("create", "x"), h1=h1, h2=h2, b0=b0)
        w.open, w.mode = True, "a"
        creating = [True]

        def writer_open():
            return any(h.open and h.mode == "a" for h in hs)

        def invariants(step):
            for i, h in enumerate(hs):
                if h.obj is None:
                    continue
                try:
                    ks = list(h.obj.keys())
                except Exception as e:
                    fails.append(Fail("raw:keys-raises", f"step {step} h{i}: {e!r}"))
                    continue
                if ks != list(h.view):
                    fails.append(Fail("raw:keys-mismatch", f"step {step} h{i}: keys()={_abbr(ks)} model={_abbr(list(h.view))}"))
                    continue
                if h.open:
                    for k, v in h.view.items():
                        try:
                            got = h.obj.get(k)
                        except Exception as e:
                            fails.append(Fail("raw:listed-key-unreadable", f"step {step} h{i} key={_abbr(k)}: {e!r}"))
                            break
                        if got != v:
                            fails.append(Fail("raw:wrong-value", f"step {step} h{i} key={_abbr(k)}: got {len(got)}B {_abbr(got)} want {len(v)}B {_abbr(v)}"))
                            break
                    else:
                        # the observation must not tidy up after itself: reading every record in order would leave the stream at the end
                        # of the file, exactly where the next put belongs.  Finish with the FIRST record, so that a put that trusts the
                        # stream position (instead of its own end-of-data offset) is caught.
                        if h.view:
                            try:
                                h.obj.get(next(iter(h.view)))
                            except Exception:
                                pass

        for step, op in enumerate(recipe["ops"]):
            name, hi = op[0], op[1]
            h = hs[hi]
            if name == "open":
                mode = op[2]
                if mode == "same":
                    # open() without a mode: the handle comes back in the mode it had (a creating handle as an appender)
                    if h.obj is None or h.open:
                        continue
                    mode, default_mode = h.mode, True
                else:
                    default_mode = False
                if mode not in ("r", "a"):
                    raise HarnessError(f"bad mode {mode!r}")
                if h.open:
                    continue  # open() on an open handle is documented as a no-op; not interesting
                if mode == "a" and writer_open():
                    continue  # outside the claim (two concurrent raw writers)
                if creating[0]:
                    continue  # the creating handle (mode x/w) has not been closed yet: header may be unwritten
                try:
                    if h.obj is None:
                        h.obj = UKVFile(path, mode)
                    elif default_mode:
                        h.obj.open()
                    else:
                        h.obj.open(mode)
                except Exception as e:
                    fails.append(Fail("raw:open-raises", f"step {step} open({mode}): {e!r}"))
                    break
                h.open, h.mode = True, mode
                got = list(h.obj.keys())
                if writer_open() and mode == "r" and any(x.open and x.mode == "a" for x in hs if x is not h):
                    # a writer is active: its records reach the file in order, some may still be buffered
                    allk = list(now)
                    if got != allk[: len(got)] or len(got) < len(committed):
                        fails.append(Fail("raw:reopen-view-not-prefix", f"step {step}: keys()={_abbr(got)} committed={_abbr(list(committed))} now={_abbr(allk)}"))
                        break
                    h.view = {k: now[k] for k in got}
                else:
                    h.view = dict(now)
            elif name == "close":
                if h.obj is None or not h.open:
                    continue
                try:
                    h.obj.close()
                except Exception as e:
                    fails.append(Fail("raw:close-raises", f"step {step}: {e!r}"))
                    break
                if h.mode == "a":
                    committed = dict(now)
                if h is hs[0]:
                    creating[0] = False
                h.open = False
            elif name == "put":
                if h.obj is None:
                    continue
                k, v = KEYS[op[2]], VALS[op[3]]
                should_fail = (not h.open) or h.mode != "a" or k in h.view or len(k) > 255
                try:
                    h.obj.put(k, v)
                    raised = None
                except Exception as e:
                    raised = e
                if should_fail and raised is None:
                    why = "closed" if not h.open else "read-only" if h.mode != "a" else "duplicate" if k in h.view else "oversize"
                    fails.append(Fail(f"raw:bad-put-accepted:{why}", f"step {step} put({_abbr(k)}) on h{hi}"))
                    break
                if not should_fail and raised is not None:
                    fails.append(Fail("raw:good-put-raises", f"step {step} put({_abbr(k)},{len(v)}B): {raised!r}"))
                    break
                if not should_fail:
                    h.view[k] = v
                    now[k] = v
            elif name == "put_ioerror":
                # the k-th write() of this put raises OSError (disk full / I/O error): the put fails and must leave everything as it was
                if h.obj is None or not h.open or h.mode != "a":
                    continue
                k, v = KEYS[op[2]], VALS[op[3]]
                if k in h.view or len(k) > 255:
                    continue
                real = h.obj._stream

                class _Failing:
                    def __init__(self, real, at):
                        self._r, self._n, self._at = real, 0, at

                    def write(self, b):
                        if self._n == self._at:
                            self._n += 1
                            raise EXC()
                        self._n += 1
                        return self._r.write(b)

                    def __getattr__(self, nm):
                        return getattr(self._r, nm)

                # what goes wrong: an I/O error, running out of memory, Ctrl-C - or the caller hands over a str instead of bytes
                # (then the stream itself refuses the value, after header and key went out)
                ek_ = (op[4] // 3) % 4
                EXC = [lambda: OSError(28, "injected: no space left on device"), lambda: MemoryError("injected"), lambda: KeyboardInterrupt("injected"), None][ek_]
                if EXC is not None:
                    h.obj._stream = _Failing(real, op[4] % 3)
                try:
                    h.obj.put(k, v if EXC is not None else "not bytes: " + "x" * (len(v) % 50))
                    raised = None
                except (OSError, MemoryError, KeyboardInterrupt, TypeError) as e:
                    raised = e
                finally:
                    h.obj._stream = real
                if raised is None:
                    fails.append(Fail("raw:put-swallowed-io-error", f"step {step}"))
                    break
            elif name == "copy":
                # the handle object is pickled / copied (what joblib, multiprocessing and copy do with it) and the COPY is opened, looked at
                # and closed.  Whatever the copy is able to do - nothing the existing handles show, and nothing in the file, changes
                if h.obj is None:
                    continue
                if (not h.open) and h.mode == "a" and writer_open():
                    continue   # re-opening the copy would make a second concurrent writer: outside the claim
                if h.open and h.mode == "a":
                    try:
                        h.obj._stream.flush()     # (only whole records in the file while a second object looks at it)
                    except Exception:
                        pass
                import copy as _copy
                import pickle as _pickle
                try:
                    cp = [lambda o: _pickle.loads(_pickle.dumps(o)), _copy.copy, _copy.deepcopy][op[2] % 3](h.obj)
                except Exception:
                    continue
                try:
                    cp.open()
                    list(cp.keys())
                except Exception:
                    pass
                finally:
                    try:
                        cp.close()
                    except Exception:
                        pass
            elif name == "get":
                if h.obj is None:
                    continue
                k = KEYS[op[2]]
                try:
                    got = h.obj.get(k)
                    raised = None
                except Exception as e:
                    raised = e
                if not h.open:
                    if raised is None:
                        fails.append(Fail("raw:get-on-closed-returns", f"step {step}"))
                elif k in h.view:
                    if raised is not None or got != h.view[k]:
                        fails.append(Fail("raw:wrong-value", f"step {step} get({_abbr(k)}): {raised!r}"))
                elif raised is None and got != now.get(k, None):
                    fails.append(Fail("raw:get-of-unput-key-returns", f"step {step} get({_abbr(k)}) -> {len(got)}B"))
            else:
                raise HarnessError(f"unknown op {op}")
            invariants(step)
            if fails:
                break

        # final: close everything, fresh handle agrees with the model exactly
        for h in hs:
            if h.obj is not None and h.open:
                try:
                    h.obj.close()
                except Exception as e:
                    fails.append(Fail("raw:close-raises", f"final: {e!r}"))
                h.open = False
        if not fails:
            fr = UKVFile(path, "r")
            try:
                ks = list(fr.keys())
                if ks != list(now):
                    fails.append(Fail("raw:final-keys-mismatch", f"fresh keys={_abbr(ks)} model={_abbr(list(now))}"))
                else:
                    for k, v in now.items():
                        if fr.get(k) != v:
                            fails.append(Fail("raw:final-wrong-value", f"key={_abbr(k)}"))
                            break
                eh1 = (h1 or UKVFile.FILE_H1_DEFAULT)
                if fr.h1.rstrip(b"\0") != eh1.rstrip(b"\0") or fr.h2 != (h2 or b"") or fr.b0 != (b0 or b""):
                    fails.append(Fail("raw:headers-changed", f"h1={fr.h1!r} h2={_abbr(fr.h2)} b0={_abbr(fr.b0)}"))
            finally:
                fr.close()
            want = 32 + len(h2 or b"") + len(b0 or b"") + sum(5 + len(k) + len(v) for k, v in now.items())
            size = os.path.getsize(path)
            if size != want:
                fails.append(Fail("raw:file-size", f"size={size} expected={want} (failed ops must leave the file unchanged)"))
    finally:
        for h in hs:
            try:
                if h.obj is not None and not h.obj.closed:
                    h.obj.close()
            except Exception:
                pass
        _rm(path)
    return fails


def _abbr(x, n=40):
    if isinstance(x, (bytes, str)):
        return repr(x if len(x) <= n else x[:12] + (b"..." if isinstance(x, bytes) else "...") + x[-4:]) + (f"[{len(x)}]" if len(x) > n else "")
    if isinstance(x, list):
        return "[" + ",".join(_abbr(i, 12) for i in x[:8]) + (",..." if len(x) > 8 else "") + "]"
    return repr(x)


def classify_raw(recipe):
    ops = recipe["ops"]
    labels = []
    put_seen = False
    reopen_a_after_put = False
    failed_put_then_read = False
    two_views = False
    open_state = {0: "a"}
    keys_put = set()
    failed = False
    for op in ops:
        if op[0] == "put_ioerror":
            failed = True
            continue
        if op[0] == "put":
            st_ = open_state.get(op[1])
            k = op[2]
            if st_ == "a" and k not in keys_put and len(KEYS[k]) <= 255:
                keys_put.add(k)
                put_seen = True
                if any(s is not None and h != op[1] for h, s in open_state.items()):
                    two_views = True
            else:
                failed = True
        elif op[0] == "open":
            if open_state.get(op[1]) is None:
                if op[2] == "a" and put_seen and "a" not in open_state.values():
                    reopen_a_after_put = True
                if not (op[2] == "a" and "a" in open_state.values()):
                    open_state[op[1]] = op[2]
                if failed:
                    failed_put_then_read = True
        elif op[0] == "close":
            open_state[op[1]] = None
        elif op[0] == "get" and failed:
            failed_put_then_read = True
    if reopen_a_after_put:
        labels.append("reopen_append_after_put")
    if two_views:
        labels.append("two_handles_different_views")
    if failed:
        labels.append("failed_put")
    if failed_put_then_read:
        labels.append("failed_put_then_read")
    if any(op[0] == "put" and len(op) > 3 and len(VALS[op[3]]) > 8192 for op in ops):
        labels.append("value_exceeds_io_buffer")
    if sum(1 for op in ops if op[0] == "put" and len(op) > 3 and len(VALS[op[3]]) == 5000) >= 2:
        labels.append("two_5000B_values(torn_record_on_disk_possible)")
    nt = reopen_a_after_put or two_views or failed
    return nt, labels


# exhaustive alphabet: 14 letters over 2 handles
_EXH = [
    ["close", 0], ["open", 0, "r"], ["open", 0, "a"],
    ["close", 1], ["open", 1, "r"], ["open", 1, "a"], ["open", 0, "same"],
    ["put", 0, 0, 8], ["put", 0, 1, 0], ["put", 0, 4, 1], ["put", 0, 5, 8],
    ["put", 1, 0, 2], ["put", 1, 1, 8], ["put", 1, 5, 4], ["put", 1, 4, 1], ["put", 0, 6, 1],
    ["get", 0, 0], ["get", 1, 1],      # a read between two writes moves the stream position
    ["copy", 0, 0],                    # the handle is pickled; the copy is opened, listed, closed
]


def enum_raw(tier, shard, nshards):
    L = 4 if tier == "quick" else 5
    i = 0
    for n in range(1, L + 1):
        for seq in itertools.product(range(len(_EXH)), repeat=n):
            if i % nshards == shard:
                yield {"hdr": [0, 0, 0], "create": "xw"[i % 2], "ops": [_EXH[j] for j in seq]}
            i += 1


def strat_raw(tier):
    maxlen = 30 if tier == "quick" else 60
    h = st.integers(0, 2)
    op = st.one_of(
        st.tuples(st.just("open"), h, st.sampled_from(["r", "a", "same"])).map(list),
        st.tuples(st.just("close"), h).map(list),
        st.tuples(st.just("put"), h, st.integers(0, len(KEYS) - 1), st.integers(0, len(VALS) - 1)).map(list),
        st.tuples(st.just("put"), h, st.integers(0, len(KEYS) - 1), st.integers(0, 2)).map(list),
        st.tuples(st.just("get"), h, st.integers(0, len(KEYS) - 1)).map(list),
        st.tuples(st.just("copy"), h, st.integers(0, 2)).map(list),
        st.tuples(st.just("put_ioerror"), h, st.integers(0, len(KEYS) - 1), st.integers(0, 2), st.integers(0, 11)).map(list),
    )
    return st.fixed_dictionaries(
        {
            "hdr": st.tuples(st.integers(0, 3), st.integers(0, 5), st.integers(0, 5)).map(list),
            "create": st.sampled_from(["x", "w"]),
            "ops": st.lists(op, min_size=1, max_size=maxlen),
        }
    )


# ---------------------------------------------------------------- collection layer
COMMENTS = ["c02", "", "  indented remark", "two\nlines\n", "\t", "trailing space ", "é\x00"]
SKEYS = ["a", "b", "é\n", "k" * 255, "K" * 256, "ü" * 128, "c", "d", ""]
BUFS = [-1, 0, 64, 10**6]


def check_coll(recipe) -> list[Fail]:
    from molli.storage import Collection, UkvCollectionBackend

    fails: list[Fail] = []
    path = _path("coll")
    model: dict[str, bytes] = {}
    objs = []
    asked_buf = {}
    comment = COMMENTS[recipe.get("comment", 0)]
    try:
        for i, hd in enumerate(recipe["handles"]):
            ro = bool(hd["ro"]) and i > 0
            try:
                objs.append((Collection(path, UkvCollectionBackend, readonly=ro, bufsize=BUFS[hd["buf"]], comment=comment), ro))
                asked_buf[id(objs[-1][0])] = BUFS[hd["buf"]]      # the buffer size the CALLER asked for (not what the backend made of it)
            except Exception as e:
                fails.append(Fail("coll:constructor-raises", f"handle {i}: {e!r}"))
                return fails
        for si, sess in enumerate(recipe["sessions"]):
            coll, ro = objs[sess["h"] % len(objs)]
            mode = sess["mode"]
            if mode not in ("r", "w"):
                raise HarnessError(f"bad mode {mode!r}")
            cm = coll.writing() if mode == "w" else coll.reading()
            try:
                cm.__enter__()
            except Exception as e:
                if mode == "w" and ro:
                    continue  # write session on a read-only handle must be refused
                fails.append(Fail("coll:session-begin-raises", f"session {si} mode={mode}: {e!r}"))
                break
            if mode == "w" and ro:
                fails.append(Fail("coll:write-session-on-readonly-accepted", f"session {si}"))
                break
            sess_model = dict(model)
            pending_bad = None    # a bad put that was accepted silently: must surface by session end
            exit_exc = None
            try:
                for oi, op in enumerate(sess["ops"]):
                    if op[0] == "put" and mode != "w":
                        # a put inside reading() goes to a read-only file handle.  With an unbuffered backend (bufsize -1 / 0) it
                        # is attempted at once and must fail leaving the view unchanged; with a buffer it is merely queued for a
                        # later session, which the statement does not describe: skipped
                        k, v = SKEYS[op[1]], VALS[op[2]]
                        if ro:
                            # a handle opened readonly=True refuses every put, whatever its buffer: nothing is queued, nothing listed
                            try:
                                coll[k] = v
                                fails.append(Fail("coll:put-on-a-readonly-collection-accepted", f"session {si} op {oi} put({_abbr(k)}) buf={asked_buf[id(coll)]}"))
                                break
                            except Exception:
                                pass
                            if set(coll.keys()) != set(sess_model):
                                fails.append(Fail("coll:refused-put-on-a-readonly-collection-changed-the-key-listing", f"session {si} op {oi}"))
                                break
                            continue
                        if asked_buf[id(coll)] > 0 or len(k) + len(v) <= asked_buf[id(coll)]:
                            continue   # (an empty key with an empty value does not exceed a buffer of 0 bytes: queued, not attempted)
                        try:
                            coll[k] = v
                            fails.append(Fail("coll:put-in-read-session-accepted", f"session {si} op {oi}"))
                            break
                        except Exception:
                            pass
                        ks = set(coll.keys())
                        if ks != set(sess_model):
                            fails.append(Fail("coll:failed-put-on-readonly-file-handle-changed-the-key-listing", f"session {si} op {oi} put({_abbr(k)}) raised, listing now has extra={_abbr(sorted(ks - set(sess_model)))} missing={_abbr(sorted(set(sess_model) - ks))}"))
                            break
                        continue
                    if op[0] == "put":
                        k, v = SKEYS[op[1]], VALS[op[2]]
                        bad = (mode != "w") or k in sess_model or len(k.encode()) > 255
                        try:
                            coll[k] = v
                            raised = None
                        except Exception as e:
                            raised = e
                        if bad and raised is None:
                            pending_bad = (k, "duplicate" if k in sess_model else "oversize" if mode == "w" else "read-session")
                            if mode != "w":
                                fails.append(Fail("coll:put-in-read-session-accepted", f"session {si} op {oi}"))
                                break
                        elif not bad and raised is not None:
                            fails.append(Fail("coll:good-put-raises", f"session {si} op {oi} put({_abbr(k)}): {raised!r}"))
                            break
                        elif not bad:
                            sess_model[k] = v
                    elif op[0] == "get":
                        k = SKEYS[op[1]]
                        try:
                            got = coll[k]
                            raised = None
                        except Exception as e:
                            raised = e
                        if k in sess_model:
                            if raised is not None:
                                fails.append(Fail("coll:listed-key-unreadable", f"session {si} op {oi} get({_abbr(k)}): {raised!r}"))
                                break
                            if got != sess_model[k]:
                                fails.append(Fail("coll:wrong-value", f"session {si} op {oi} get({_abbr(k)})"))
                                break
                        elif raised is None and not (pending_bad and pending_bad[0] == k):
                            fails.append(Fail("coll:get-of-unput-key-returns", f"session {si} op {oi} get({_abbr(k)})"))
                            break
                    elif op[0] == "flush":
                        try:
                            coll.flush()
                        except Exception as e:
                            if pending_bad is None:
                                fails.append(Fail("coll:flush-raises", f"session {si} op {oi}: {e!r}"))
                                break
                            pending_bad = None  # surfaced here
                    # invariant: listing == model, and every listed key readable (the property's last sentence)
                    ks = set(coll.keys())
                    want = set(sess_model)
                    if pending_bad is not None:
                        ks.discard(pending_bad[0]); want.discard(pending_bad[0])
                    if ks != want:
                        fails.append(Fail("coll:keys-mismatch", f"session {si} op {oi}: extra={_abbr(sorted(ks-want))} missing={_abbr(sorted(want-ks))}"))
                        break
                    for k in ks:
                        try:
                            got = coll[k]
                        except Exception as e:
                            fails.append(Fail("coll:listed-key-unreadable", f"session {si} op {oi} key={_abbr(k)} buf={coll._backend._bufsize}: {e!r}"))
                            break
                        if got != sess_model[k]:
                            fails.append(Fail("coll:wrong-value", f"session {si} op {oi} key={_abbr(k)}"))
                            break
                    if fails:
                        break
                    if ks:
                        try:
                            coll[min(ks)]      # leave the file handle positioned inside the file, not at its end (see check_raw)
                        except Exception:
                            pass
            finally:
                try:
                    if sess.get("abort") and mode == "w" and pending_bad is None and not fails:
                        # the with-block is left through an exception of the caller's own: the puts that succeeded before it stay stored
                        boom = RuntimeError("caller's own exception inside the session")
                        if cm.__exit__(RuntimeError, boom, None):
                            fails.append(Fail("coll:session-swallows-callers-exception", f"session {si}"))
                    else:
                        cm.__exit__(None, None, None)
                except Exception as e:
                    exit_exc = e
            if fails:
                break
            if exit_exc is not None and pending_bad is None:
                fails.append(Fail("coll:session-exit-raises", f"session {si}: {exit_exc!r}"))
                break
            if pending_bad is not None and exit_exc is None and mode == "w":
                # accepted silently and never reported: was it stored?
                fails.append(Fail(f"coll:bad-put-accepted:{pending_bad[1]}", f"session {si} key={_abbr(pending_bad[0])}"))
                break
            model = sess_model
            # after the session every handle's next read session must show the model; checked right away
            # through a *different* existing handle (its index is stale) and through a fresh one
            for tag, other in (("stale", objs[(sess["h"] + 1) % len(objs)][0]), ("fresh", None)):
                if other is None:
                    other = Collection(path, UkvCollectionBackend, readonly=True)
                    from molli.storage.ukvfile import UKVFile
                    with UKVFile(path, "r") as fr:
                        if fr.h2 != comment.encode():
                            fails.append(Fail("coll:comment-not-preserved", f"after session {si}: {fr.h2!r} vs {comment.encode()!r}"))
                            break
                with other.reading():
                    ks = set(other.keys())
                    if ks != set(model):
                        fails.append(Fail("coll:after-session-keys-mismatch", f"after session {si} via {tag} handle: extra={_abbr(sorted(ks-set(model)))} missing={_abbr(sorted(set(model)-ks))}"))
                        break
                    for k in ks:
                        if other[k] != model[k]:
                            fails.append(Fail("coll:after-session-wrong-value", f"after session {si} via {tag} handle key={_abbr(k)}"))
                            break
            if fails:
                break
    finally:
        for c, _ in objs:
            try:
                c._backend._write_queue.clear()
                import atexit
                atexit.unregister(c._backend.flush)
                if hasattr(c._backend, "_ukvfile") and not c._backend._ukvfile.closed:
                    c._backend._ukvfile.close()
            except Exception:
                pass
        _rm(path)
    return fails


def classify_coll(recipe):
    labels = []
    nh = len(recipe["handles"])
    labels.append(f"handles={nh}")
    bufs = {BUFS[h["buf"]] for h in recipe["handles"]}
    for b in bufs:
        labels.append(f"buf={b}")
    wsess = [s for s in recipe["sessions"] if s["mode"] == "w"]
    puts = [op for s in wsess for op in s["ops"] if op[0] == "put"]
    seen = set()
    dup = False
    for op in puts:
        if op[1] in seen:
            dup = True
        seen.add(op[1])
    over = any(len(SKEYS[op[1]].encode()) > 255 for op in puts)
    if any(op[0] == "put" for s_ in recipe["sessions"] if s_["mode"] == "r" for op in s_["ops"]):
        labels.append("put_inside_reading_session")
    labels.append(f"comment={COMMENTS[recipe.get('comment', 0)]!r}")
    if any(s_.get("abort") for s_ in wsess):
        labels.append("write_session_left_through_an_exception")
    if dup:
        labels.append("duplicate_put")
    if over:
        labels.append("oversize_put")
    stale = len({s["h"] % nh for s in wsess}) > 1
    if stale:
        labels.append("writes_through_several_handles")
    nt = len(puts) >= 2 and (dup or over or stale or len(wsess) >= 2)
    return nt, labels


def strat_coll(tier):
    hd = st.fixed_dictionaries({"ro": st.booleans(), "buf": st.integers(0, 3)})
    op = st.one_of(
        st.tuples(st.just("put"), st.integers(0, len(SKEYS) - 1), st.integers(0, len(VALS) - 1)).map(list),
        st.tuples(st.just("put"), st.integers(0, len(SKEYS) - 1), st.integers(0, 2)).map(list),
        st.tuples(st.just("get"), st.integers(0, len(SKEYS) - 1)).map(list),
        st.just(["flush"]),
    )
    sess = st.fixed_dictionaries(
        {"h": st.integers(0, 2), "mode": st.sampled_from(["w", "w", "r"]), "ops": st.lists(op, max_size=8 if tier == "quick" else 14), "abort": st.sampled_from([False, False, True])}
    )
    return st.fixed_dictionaries(
        {"comment": st.integers(0, len(COMMENTS) - 1), "handles": st.lists(hd, min_size=1, max_size=3), "sessions": st.lists(sess, min_size=1, max_size=6 if tier == "quick" else 10)}
    )


LEGS = [
    Leg(
        "raw_exh", check_raw, classify_raw, enumerate=enum_raw, exhaustive=True,
        shards={"quick": 32, "thorough": 64},
        rule="all op sequences of length<=4 (quick) / <=5 (thorough) over 19 letters {close,open r,open a}x{h0,h1} + open() without a mode + 2 gets + handle pickled and the copy opened + 9 puts (dup, 256-byte key, empty key, 9 kB values), file created with mode x or w; non-trivial = append-reopen after a put, or two handles with different views, or a failed put; distinct = op-sequence hash",
    ),
    Leg(
        "raw_rand", check_raw, classify_raw, strategy=strat_raw,
        n={"quick": 1500, "thorough": 40000},
        rule="random sequences <=30/60 ops, 3 handles, keys incl. binary/255/256 B, values 0..70 kB, headers h1/h2/b0 drawn per file, plus puts whose 1st/2nd/3rd stream write raises an injected OSError; same non-trivial rule",
    ),
    Leg(
        "coll", check_coll, classify_coll, strategy=strat_coll,
        n={"quick": 1500, "thorough": 40000},
        rule="random histories of reading()/writing() sessions over 1-3 Collection handles (stale indexes) with bufsize in {-1,0,64,1e6}; non-trivial = >=2 puts and (duplicate | oversize | writes through several handles | >=2 write sessions)",
    ),
]
