"""C05 — atoms, bonds, coordinates and charges stay aligned under every edit history.

An op list (plain data, indices resolved modulo the current size) is interpreted against a
Molecule / Structure and, in lock-step, against an identity-keyed reference model
(ordered atom list, id -> (coord, charge), bond set).  Invariants are checked after every step.
Legs: hist (Hypothesis-generated histories up to 40 steps, starts: empty / generated /
bundled mol2 / clone), short (all op sequences of length <= 3 (quick) / 4 (thorough) over a
reduced op alphabet from a 3-atom start, exhaustive).
"""
from __future__ import annotations

import itertools
import math

import numpy as np
from hypothesis import strategies as st

from vf import chem
from vf.core import Fail, Leg, HarnessError

LEVEL = "exploration"
ASSUMPTIONS = [
    "no self-loops and no second bond between the same pair (Bond equality is endpoint-set equality, so del_bond on parallel bonds is ambiguous by design)",
    "labels used for by-label deletion are unique",
    "remove_substituent is only applied to bridge bonds",
    "an atom added without a charge must get SOME real number as partial charge (0.0 is not demanded)",
]
ELS = [6, 7, 8, 1, 9, 16, 15, 17, 5, 14]
FILES = ["dendrobine_mol2", "dmf_mol2", "benzene_mol2", "fxyl_mol2", "isornitrate_mol2"]


def _eqf(a, b):
    a, b = float(a), float(b)
    return a == b or (a != a and b != b)


class Model:
    def __init__(self, mol, has_charges):
        self.atoms = list(mol.atoms)
        self.coord = {id(a): np.array(mol.coords[i], dtype=float) for i, a in enumerate(self.atoms)}
        self.has_charges = has_charges
        self.charge = {id(a): (float(mol.atomic_charges[i]) if has_charges else None) for i, a in enumerate(self.atoms)}
        self.bonds = [frozenset((id(b.a1), id(b.a2))) for b in mol.bonds]
        self.keep = list(self.atoms)  # keep references alive so ids stay unique

    def add(self, a, coord, charge):
        self.atoms.append(a)
        self.keep.append(a)
        self.coord[id(a)] = None if coord is None else np.array(coord, dtype=float)
        self.charge[id(a)] = charge  # None = unspecified: any real number, fixed at first observation

    def delete(self, a):
        self.atoms = [x for x in self.atoms if x is not a]
        self.bonds = [b for b in self.bonds if id(a) not in b]

    def neighbours(self, a, without=None):
        out = []
        for b in self.bonds:
            if id(a) in b:
                (o,) = [x for x in b if x != id(a)] or [id(a)]
                if without is None or o != id(without):
                    out.append(o)
        return out


def invariants(mol, model, step, opname) -> list[Fail]:
    fails = []
    where = f"after step {step} ({opname})"
    atoms = mol.atoms
    n = len(atoms)
    co = mol.coords
    if co.ndim != 2 or co.shape != (n, 3):
        fails.append(Fail(f"coords-rows!=atoms:{opname}", f"{where}: {n} atoms, coords shape {co.shape}"))
    if model.has_charges:
        ch = mol.atomic_charges
        if len(ch) != n:
            fails.append(Fail(f"charges-len!=atoms:{opname}", f"{where}: {n} atoms, {len(ch)} charges"))
        if np.asarray(ch).dtype.kind != "f":
            fails.append(Fail(f"charges-not-numeric:{opname}", f"{where}: atomic_charges dtype {np.asarray(ch).dtype}, values {list(ch)[-3:]!r}"))
    if len(atoms) != len(model.atoms) or any(a is not b for a, b in zip(atoms, model.atoms)):
        fails.append(Fail(f"atom-sequence-differs:{opname}", f"{where}: {len(atoms)} atoms vs model {len(model.atoms)}"))
        return fails
    if fails:
        return fails
    for i, a in enumerate(atoms):
        mc = model.coord[id(a)]
        if mc is None:
            model.coord[id(a)] = np.array(co[i], dtype=float)
        elif not all(_eqf(x, y) for x, y in zip(mc, co[i])):
            fails.append(Fail(f"atom-lost-its-coordinate:{opname}", f"{where}: atom {i} has {co[i]!r}, was given {mc!r}"))
            break
        if model.has_charges:
            q = mol.atomic_charges[i]
            if q is None or not isinstance(q, (float, np.floating)):
                fails.append(Fail(f"charges-not-numeric:{opname}", f"{where}: charge of atom {i} is {q!r}"))
                break
            mq = model.charge[id(a)]
            if mq is None:
                if q != q:
                    fails.append(Fail(f"charges-not-numeric:{opname}", f"{where}: atom {i} added without charge has NaN"))
                    break
                model.charge[id(a)] = float(q)
            elif not _eqf(mq, q):
                fails.append(Fail(f"atom-lost-its-charge:{opname}", f"{where}: atom {i} has charge {q!r}, was given {mq!r}"))
                break
        if a.parent is not mol:
            fails.append(Fail(f"atom-parent-wrong:{opname}", f"{where}: atom {i}.parent is {a.parent!r}"))
            break
        try:
            if a.idx != i or mol.get_atom_index(a) != i:
                fails.append(Fail(f"atom-index-wrong:{opname}", f"{where}: atom {i} reports idx {a.idx}"))
                break
        except Exception as e:
            fails.append(Fail(f"atom-index-raises:{opname}", f"{where}: {e!r}"))
            break
    ids = {id(a) for a in atoms}
    got = []
    for b in mol.bonds:
        if id(b.a1) not in ids or id(b.a2) not in ids:
            fails.append(Fail(f"bond-to-foreign-atom:{opname}", f"{where}: bond {b!r} has an endpoint outside the molecule"))
            return fails
        if b.parent is not mol:
            fails.append(Fail(f"bond-parent-wrong:{opname}", f"{where}"))
            return fails
        got.append(frozenset((id(b.a1), id(b.a2))))
    if sorted(map(sorted, got)) != sorted(map(sorted, model.bonds)):
        fails.append(Fail(f"bond-set-differs:{opname}", f"{where}: {len(got)} bonds vs model {len(model.bonds)}"))
    return fails


def check(recipe) -> list[Fail]:
    import molli as ml
    from molli.chem import Atom, Bond, BondType, Element, AtomType

    cls = ml.Molecule if recipe.get("cls", "Molecule") == "Molecule" else ml.Structure
    has_q = cls is ml.Molecule
    start = recipe["start"]
    src_ = None
    if start == "empty":
        mol = cls()
    elif start == "recipe":
        mol = chem.build_molecule(recipe["mol"], cls)
    elif start == "clone":
        src_ = chem.build_molecule(recipe["mol"], cls)
        mol = cls(src_)
    elif start.startswith("file:"):
        mol = cls.load_mol2(getattr(ml.files, start[5:]))
        if recipe.get("clone_file"):
            mol = cls(mol)
    else:
        raise HarnessError("bad start")
    for i, a in enumerate(mol.atoms):
        a.label = f"L{i}"
    if recipe.get("int_q") and has_q and mol.n_atoms:
        # the partial charges were assigned from INTEGER values (formal charges, zeros from a list of ints)
        mol.atomic_charges = [int(i % 3) - 1 for i in range(mol.n_atoms)]
    model = Model(mol, has_q)
    fails = invariants(mol, model, -1, "start:" + start.split(":")[0])
    if fails:
        return fails
    nlabel = itertools.count(len(mol.atoms))

    def newatom(el):
        return Atom(element=ELS[el % len(ELS)], label=f"L{next(nlabel)}")

    for step, op in enumerate(recipe["ops"]):
        name = op[0]
        n = len(model.atoms)
        if name == "add_atom":
            a = newatom(op[1])
            coord, q = op[2], op[3]
            if has_q:
                if q is None:
                    mol.add_atom(a, coord)
                else:
                    mol.add_atom(a, coord, q)
            else:
                mol.add_atom(a, coord)
                q = None
            model.add(a, coord, q)
        elif name == "add_existing":
            # add_atom with an Atom object that is ALREADY in the molecule.  What that means is the library's business; asserted is only:
            # if the library REFUSES such a call (probed on a throw-away molecule), the refusal leaves rows, charges and atoms as they were
            if n < 1:
                continue
            probe, pa = cls(), newatom(0)
            probe.add_atom(pa, [0.0, 0.0, 0.0])
            try:
                probe.add_atom(pa, [1.0, 1.0, 1.0])
                refuses = False
            except Exception:
                refuses = True
            if not refuses:
                continue
            try:
                mol.add_atom(model.atoms[op[1] % n], [0.5, 0.5, 0.5])
                return [Fail("add_atom-of-a-present-atom-refused-on-the-probe-but-accepted-here", f"step {step}")]
            except Exception:
                pass
            name = "add_existing(refused)"
        elif name == "new_atom":
            a = mol.new_atom(ELS[op[1] % len(ELS)], None, op[2], label=f"L{next(nlabel)}")
            model.add(a, op[2], None)
        elif name == "del_atom":
            if n == 0:
                continue
            a = model.atoms[op[2] % n]
            how = op[1]
            if how == "label" and (a.label is None or sum(1 for x in model.atoms if x.label == a.label) != 1):
                how = "obj"   # by-label deletion is only defined for unique labels
            if how == "obj":
                mol.del_atom(a)
            elif how == "index":
                mol.del_atom(model.atoms.index(a))
            elif how == "label":
                mol.del_atom(a.label)
            elif how == "element":
                a = next(x for x in model.atoms if x.element == a.element)   # "first atom of that element"
                mol.del_atom(Element(int(a.element)))
            elif how == "negindex":
                # an index counted from the END: refused (nothing changes) or taken as Python does (that atom goes, with its row,
                # charge and bonds) - never half of each
                try:
                    mol.del_atom(model.atoms.index(a) - n)
                except (ValueError, IndexError, KeyError, TypeError):
                    fails = invariants(mol, model, step, "del_atom[negindex,refused]")
                    if fails:
                        return fails
                    continue
            else:
                raise HarnessError("bad how")
            model.delete(a)
            name = f"del_atom[{how}]"
        elif name in ("connect", "append_bond"):
            if n < 2:
                continue
            a, b = model.atoms[op[1] % n], model.atoms[op[2] % n]
            if (a is b and (op[1] + op[3]) % 4) or (a is not b and frozenset((id(a), id(b))) in model.bonds and (op[1] + op[2]) % 3):
                continue     # (a second Bond object between an already bonded pair is made in a third of the cases, a bond from an atom to
                             #  itself in a quarter of the cases where the two drawn atoms coincide: legal, if odd, members of the bond list)
            if name == "connect":
                mol.connect(a, b, btype=BondType(op[3]))
            else:
                mol.append_bond(Bond(a, b, btype=BondType(op[3])))
            model.bonds.append(frozenset((id(a), id(b))))
        elif name in ("append_bond_foreign", "append_bonds_foreign", "extend_bonds_foreign"):
            if n < 1:
                continue
            a = model.atoms[op[1] % n]
            f = newatom(op[2])
            bond = Bond(a, f) if op[3] else Bond(f, a)
            if name == "append_bond_foreign":
                mol.append_bond(bond)
            elif name == "append_bonds_foreign":
                mol.append_bonds(bond)
            else:
                # any Iterable[Bond]: list, tuple, one-shot generator, iterator
                mol.extend_bonds([lambda b: [b], lambda b: (b,), lambda b: (x for x in [b]), lambda b: iter([b])][(op[1] + op[2]) % 4](bond))
            model.add(f, None, None)   # adopted without coordinates: any row, but a row
            model.bonds.append(frozenset((id(a), id(f))))
        elif name == "self_bond":
            # a bond from an atom to itself: an odd but legal member of the bond list (connect(x, x) makes it)
            if n < 1:
                continue
            a = model.atoms[op[1] % n]
            if frozenset((id(a),)) in model.bonds:
                continue
            mol.connect(a, a)
            model.bonds.append(frozenset((id(a), id(a))))
        elif name == "self_bond_foreign":
            # ... and the same on an atom that is NEW to the molecule: the atom is adopted - once
            f = newatom(op[1])
            bond = Bond(f, f)
            [mol.append_bond, lambda b: mol.append_bonds(b), lambda b: mol.extend_bonds([b]), lambda b: mol.extend_bonds(iter([b]))][op[2] % 4](bond)
            model.add(f, None, None)
            model.bonds.append(frozenset((id(f), id(f))))
        elif name == "bond_two_foreign":
            # a bond BOTH of whose ends are new to the molecule: both are adopted (no coordinates / charges given: any row, but a row)
            f1, f2 = newatom(op[1]), newatom(op[1] + 1)
            bond = Bond(f1, f2)
            [mol.append_bond, lambda b: mol.append_bonds(b), lambda b: mol.extend_bonds([b]), lambda b: mol.extend_bonds(iter([b]))][op[2] % 4](bond)
            model.add(f1, None, None)
            model.add(f2, None, None)
            model.bonds.append(frozenset((id(f1), id(f2))))
        elif name in ("append_bond_readopt", "append_bond_steal"):
            if n < 1:
                continue
            a = model.atoms[op[1] % n]
            if name == "append_bond_readopt":
                dead = [x for x in model.keep if not any(x is y for y in model.atoms)]
                if not dead:
                    continue
                f = dead[op[2] % len(dead)]     # an Atom object that was deleted from this molecule earlier
            else:
                donor = cls()                    # an atom that currently belongs to ANOTHER molecule (between two atoms of its own)
                f = newatom(op[2])
                d0_, d1_ = Atom(element=6, label="D0"), Atom(element=8, label="D1")
                for a_, c_, q_ in ((d0_, [8.0, 9.0, 9.0], 0.125), (f, [9.0, 9.0, 9.0], 0.25), (d1_, [10.0, 9.0, 9.0], 0.375)):
                    if has_q:
                        donor.add_atom(a_, c_, q_)
                    else:
                        donor.add_atom(a_, c_)
                model.donors = getattr(model, 'donors', []) + [donor]
            bond = Bond(a, f) if op[3] else Bond(f, a)
            [mol.append_bond, lambda b: mol.append_bonds(b), lambda b: mol.extend_bonds(iter([b]) if op[1] % 2 else [b])][op[2] % 3](bond)
            model.atoms.append(f)
            if not any(f is y for y in model.keep):
                model.keep.append(f)
            model.coord[id(f)] = None
            model.charge[id(f)] = None
            model.bonds.append(frozenset((id(a), id(f))))
            if name == "append_bond_steal" and (op[1] + op[2]) % 2:
                # ... and the molecule it came from then strikes it off its own list: the atom lives HERE now (parent, index, row)
                try:
                    donor.del_atom(f)
                except Exception as e:
                    return [Fail("donor-cannot-strike-a-stolen-atom", f"step {step}: {e!r}"[:200])]
                # ... and is itself left with its two own atoms, their rows and their charges
                if donor.n_atoms != 2 or np.shape(donor.coords) != (2, 3) or not np.array_equal(np.asarray(donor.coords)[:, 0], [8.0, 10.0]) or (has_q and [float(x) for x in donor.atomic_charges] != [0.125, 0.375]):
                    return [Fail("donor-misaligned-after-striking-a-stolen-atom", f"step {step}: {donor.n_atoms} atoms, coords {np.asarray(donor.coords).tolist()}, charges {list(getattr(donor, 'atomic_charges', []))}")]
        elif name == "del_bond":
            if not model.bonds:
                continue
            k = op[1] % len(mol.bonds)
            b = mol.bonds[k]
            mol.del_bond(b)
            model.bonds.remove(frozenset((id(b.a1), id(b.a2))))
        elif name == "remove_substituent":
            if not mol.bonds:
                continue
            b = mol.bonds[op[1] % len(mol.bonds)]
            a1, a2 = (b.a1, b.a2) if op[2] else (b.a2, b.a1)
            if a1 is a2 or model.bonds.count(frozenset((id(a1), id(a2)))) > 1:
                continue      # a doubled bond is not a bridge, a bond from an atom to itself has no other side
            # side of a2 in G - a1 (own BFS on the model)
            side, todo = {id(a2)}, [a2]
            byid = {id(x): x for x in model.atoms}
            while todo:
                x = todo.pop()
                for o in model.neighbours(x, without=a1):
                    if o not in side and o != id(a1):
                        side.add(o)
                        todo.append(byid[o])
            # bridge test: a1 must not be adjacent to the side other than through a2
            if any(id(a1) in bb and (set(bb) - {id(a1)}) & (side - {id(a2)}) for bb in model.bonds):
                continue
            c2 = np.array(model.coord[id(a2)], dtype=float)
            before = set(map(id, mol.atoms))
            # the two atoms are named as objects, as integer indices or by their (unique) labels: AtomLike
            form = (op[1] // 7) % 3
            labels_ = [x.label for x in mol.atoms]
            if form == 2 and (a1.label is None or a2.label is None or labels_.count(a1.label) != 1 or labels_.count(a2.label) != 1):
                form = 0
            n1, n2 = [(a1, a2), (mol.atoms.index(a1), mol.atoms.index(a2)), (a1.label, a2.label)][form]
            mol.remove_substituent(n1, n2, ap_label=f"L{next(nlabel)}")
            for x in [byid[i] for i in side]:
                model.delete(x)
            new = [x for x in mol.atoms if id(x) not in before]
            if len(new) != 1:
                return [Fail("remove_substituent:no-single-attachment-point", f"step {step}: {len(new)} new atoms")]
            if new[0].atype != AtomType.AttachmentPoint:
                fails.append(Fail("remove_substituent:new-atom-not-attachment-point", f"step {step}"))
            model.add(new[0], c2, None)
            model.bonds.append(frozenset((id(a1), id(new[0]))))
        elif name == "add_implicit_hydrogens":
            if any(not np.all(np.isfinite(model.coord[id(a)])) for a in model.atoms if model.coord[id(a)] is not None):
                continue   # hydrogens placed from NaN neighbours are C16's subject
            before = list(mol.atoms)
            mol.add_implicit_hydrogens()
            new = mol.atoms[len(before):]
            if [id(x) for x in mol.atoms[: len(before)]] != [id(x) for x in before]:
                return [Fail("atom-sequence-differs:add_implicit_hydrogens", f"step {step}: existing atoms reordered or replaced")]
            oldids = set(map(id, before))
            for h in new:
                bs = [b for b in mol.bonds if h in b]
                if int(h.element) != 1 or len(bs) != 1 or id(bs[0] % h) not in oldids:
                    return [Fail("add_implicit_hydrogens:new-atom-not-a-singly-bonded-H", f"step {step}: {h!r} bonds={len(bs)}")]
                model.add(h, None, None)
                model.bonds.append(frozenset((id(h), id(bs[0] % h))))
        elif name == "set_charge":
            # a partial charge assigned in place through the array the molecule hands out
            if n == 0 or not has_q:
                continue
            mol.atomic_charges[op[1] % n] = op[2]
            model.charge[id(model.atoms[op[1] % n])] = float(np.float32(op[2])) if mol.atomic_charges.dtype == np.float32 else float(op[2])
        elif name == "scribble_clone":
            # somebody else's molecules - the one this molecule was cloned from, and a clone taken now - are overwritten in place:
            # this molecule's atoms keep what THEY were given
            others = [cls(mol)] + ([src_] if src_ is not None else [])
            for o_ in others:
                if o_.n_atoms:
                    o_.coords[...] = -55.5
                    if has_q:
                        o_.atomic_charges[...] = 7.5
            del others
        elif name == "sub_del_bond":
            if n == 0:
                continue
            idx = sorted({i % n for i in op[1]})
            sub = mol.substructure(idx)
            if sub.bonds:
                sub.del_bond(sub.bonds[op[2] % len(sub.bonds)])     # leaves the VIEW's bond list only; the molecule is unchanged
            del sub
        elif name == "sub_write":
            if n == 0:
                continue
            idx = sorted({i % n for i in op[1]})
            sub = mol.substructure(idx)
            if not np.array_equal(sub.coords, mol.coords[idx], equal_nan=True):
                return [Fail("substructure-view-differs", f"step {step}")]
            newc = np.array([[op[2] + i, op[2] - i, 0.5 * i] for i in range(len(idx))], dtype=float)
            sub.coords = newc
            for j, i in enumerate(idx):
                model.coord[id(model.atoms[i])] = newc[j]
            # the view object is kept by its owner and used again later, after other edits (view_reuse)
            views = getattr(model, "views", [])
            views.append((sub, [model.atoms[i] for i in idx]))
            model.views = views[-3:]
        elif name == "view_reuse":
            views = [(v_, at) for (v_, at) in getattr(model, "views", []) if all(any(a is y for y in model.atoms) for a in at)]
            model.views = views      # a view that lost one of its atoms is dropped by its owner
            if not views:
                continue
            v_, at = views[op[1] % len(views)]
            want = [model.coord[id(a)] for a in at]
            got = np.asarray(v_.coords, dtype=float)
            for j, w in enumerate(want):
                if w is not None and not np.array_equal(got[j], np.asarray(w, dtype=float), equal_nan=True):
                    return [Fail("kept-substructure-view-reads-other-atoms-rows", f"step {step}: view atom {j} reads {got[j]}, its atom holds {w}")]
            newc = np.array([[op[2] - i, op[2] + 2 * i, 0.25 * i] for i in range(len(at))], dtype=float)
            v_.coords = newc
            for j, a in enumerate(at):
                model.coord[id(a)] = newc[j]
        else:
            raise HarnessError(f"unknown op {name}")
        fails = invariants(mol, model, step, name)
        if fails:
            return fails
    return []


def classify(recipe):
    ops = [o[0] for o in recipe["ops"]]
    labels = ["start=" + recipe["start"].split(":")[0], "cls=" + recipe.get("cls", "Molecule")]
    labels += sorted({"op=" + (o[0] if o[0] != "del_atom" else f"del_atom[{o[1]}]") for o in recipe["ops"]})
    ins = [i for i, o in enumerate(ops) if o in ("add_atom", "new_atom", "bond_two_foreign", "append_bond_foreign", "append_bonds_foreign", "extend_bonds_foreign", "append_bond_readopt", "append_bond_steal")]
    dels = [i for i, o in enumerate(ops) if o in ("del_atom", "remove_substituent")]
    nt = bool(ins and dels and max(dels) > min(ins)) or any(o.endswith("_foreign") or o in ("append_bond_readopt", "append_bond_steal") for o in ops) or any(o[0] == "del_atom" and o[1] in ("label", "element") for o in recipe["ops"])
    return nt, labels


_coord = st.lists(st.one_of(st.floats(-20, 20, width=32), st.integers(-5, 5).map(float)), min_size=3, max_size=3)
_q = st.one_of(st.none(), st.floats(-2, 2, width=32), st.just(0.25))
_i = st.integers(0, 60)
_bt = st.sampled_from([1, 2, 3, 20])


def _ops(maxlen):
    op = st.one_of(
        st.tuples(st.just("add_atom"), _i, _coord, _q).map(list),
        st.tuples(st.just("new_atom"), _i, _coord).map(list),
        st.tuples(st.just("del_atom"), st.sampled_from(["obj", "index", "label", "element", "negindex"]), _i).map(list),
        st.tuples(st.just("connect"), _i, _i, _bt).map(list),
        st.tuples(st.just("append_bond"), _i, _i, _bt).map(list),
        st.tuples(st.sampled_from(["append_bond_foreign", "append_bonds_foreign", "extend_bonds_foreign"]), _i, _i, st.booleans()).map(list),
        st.tuples(st.sampled_from(["append_bond_readopt", "append_bond_steal"]), _i, _i, st.booleans()).map(list),
        st.tuples(st.just("del_bond"), _i).map(list),
        st.tuples(st.just("remove_substituent"), _i, st.booleans()).map(list),
        st.just(["add_implicit_hydrogens"]),
        st.tuples(st.just("sub_write"), st.lists(_i, min_size=1, max_size=4), st.floats(-3, 3, width=32)).map(list),
        st.tuples(st.just("view_reuse"), _i, st.floats(-3, 3, width=32)).map(list),
        st.tuples(st.just("bond_two_foreign"), _i, _i).map(list),
        st.tuples(st.just("self_bond"), _i).map(list),
        st.tuples(st.just("self_bond_foreign"), _i, _i).map(list),
        st.tuples(st.just("add_existing"), _i).map(list),
        st.tuples(st.just("set_charge"), _i, st.floats(-2, 2, width=32)).map(list),
        st.just(["scribble_clone"]),
        st.tuples(st.just("sub_del_bond"), st.lists(_i, min_size=2, max_size=5), _i).map(list),
    )
    return st.lists(op, min_size=1, max_size=maxlen)


def _fix_elements(r):
    r = dict(r)
    r["atoms"] = [dict(a, el=ELS[a["el"] % len(ELS)], atype=1, geom=0) for a in r["atoms"]]
    return r


def strat(tier):
    molr = chem.molecule_recipe(max_atoms=10, max_bonds=12, full=False, special_coords=False, attribs=False).map(_fix_elements)
    return st.one_of(
        st.fixed_dictionaries({"start": st.sampled_from(["recipe", "clone"]), "cls": st.sampled_from(["Molecule", "Molecule", "Structure"]), "mol": molr, "ops": _ops(40), "int_q": st.booleans()}),
        st.fixed_dictionaries({"start": st.just("empty"), "cls": st.sampled_from(["Molecule", "Structure"]), "ops": _ops(40)}),
        st.fixed_dictionaries({"start": st.sampled_from(["file:" + f for f in FILES]), "clone_file": st.booleans(), "cls": st.sampled_from(["Molecule", "Structure"]), "ops": _ops(25)}),
    )


_START3 = {
    "name": "s", "charge": 0, "mult": 1, "attrib": {},
    "atoms": [{"el": e, "iso": None, "label": None, "atype": 1, "stereo": 0, "geom": 0, "fc": 0, "fs": 0, "attrib": {}} for e in (6, 8, 6)],
    "coords": [[0.0, 0.0, 0.0], [1.4, 0.1, 0.0], [2.0, 1.3, 0.2]], "charges": [0.1, -0.3, 0.2],
    "bonds": [{"a": 0, "b": 1, "label": None, "btype": 1, "stereo": 0, "f_order": 1.0, "attrib": {}}],
}
_ALPHA = [
    ["add_atom", 0, [1.0, 2.0, 3.0], 0.5], ["add_atom", 1, [4.0, 5.0, 6.0], None], ["new_atom", 2, [7.0, 8.0, 9.0]],
    ["del_atom", "obj", 0], ["del_atom", "index", 1], ["del_atom", "label", 2], ["del_atom", "element", 0], ["del_atom", "element", 1], ["del_atom", "negindex", 2],
    ["connect", 1, 2, 1], ["append_bond", 0, 2, 2], ["append_bond_foreign", 0, 3, True], ["append_bonds_foreign", 1, 0, False], ["extend_bonds_foreign", 2, 1, True],
    ["append_bond_readopt", 0, 0, True], ["append_bond_steal", 1, 1, False],
    ["sub_del_bond", [0, 1, 2], 0],
    ["del_bond", 0], ["remove_substituent", 0, True], ["remove_substituent", 0, False], ["add_implicit_hydrogens"], ["sub_write", [0, 2], 1.5], ["view_reuse", 0, 0.5], ["bond_two_foreign", 4, 1], ["self_bond", 0],
    ["set_charge", 1, 0.75], ["scribble_clone"], ["self_bond_foreign", 2, 0], ["add_existing", 1],
]


def enum_short(tier, shard, nshards):
    L = 3 if tier == "quick" else 4
    i = 0
    for cls in ("Molecule", "Structure"):
        for start in ("recipe", "clone"):
            for n in range(1, L + 1):
                for seq in itertools.product(range(len(_ALPHA)), repeat=n):
                    if i % nshards == shard:
                        yield {"start": start, "cls": cls, "mol": _START3, "ops": [_ALPHA[j] for j in seq]}
                    i += 1


_NT = "non-trivial = a deletion after an insertion, or a foreign-atom append_bond(s)/extend_bonds, or deletion by label/element; distinct = recipe hash"
LEGS = [
    Leg("hist", check, classify, strategy=strat, n={"quick": 4000, "thorough": 40000}, shards={"quick": 16, "thorough": 32},
        rule="Hypothesis-generated edit histories (<=40 ops over add_atom / new_atom / del_atom by object|index|label|Element / connect / append_bond(s) / extend_bonds incl. foreign atoms / del_bond / remove_substituent / add_implicit_hydrogens / substructure write / re-use of a kept substructure view after later edits) on Molecule and Structure, started from empty, generated, cloned and bundled-mol2 molecules; " + _NT),
    Leg("short", check, classify, enumerate=enum_short, exhaustive=True, shards={"quick": 16, "thorough": 64},
        rule="ALL op sequences of length <=3 (quick) / <=4 (thorough) over a 29-letter op alphabet from a 3-atom start x {Molecule, Structure} x {built, cloned}; " + _NT),
]
