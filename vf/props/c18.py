"""C18 — jobmap computes each item once, reuses only valid results, resumes cleanly.

A generated history of 2-4 jobmap runs over a small source library is executed for real (each job is a
/bin/sh script run through _molli_run) and, in lock-step, on a model of (destination, cache, per-item
plans and attempt counters).  The script consults a per-item plan file (ok / fail / ok on the n-th attempt /
succeed but omit the return file) and bumps a per-item execution counter, so "what was executed" is observed
from outside.  Variants: single and vectorised (per-conformer) jobs, a post-processor that needs the return
file and one that only reads stdout, changed job arguments (new hash), pre-populated destination incl.
foreign keys, cache kept / partially deleted / polluted with the output of another input.
"""
from __future__ import annotations

import itertools
import os
import shlex
import shutil

import numpy as np
from hypothesis import strategies as st

from vf.core import Fail, Leg, HarnessError, tally, exc_sig

LEVEL = "fault_enumeration"
ASSUMPTIONS = [
    "worker() (unused by jobmap) and jobmap_sge (needs qsub) are not exercised",
    "an item counts as succeeded iff every command exited 0 and its requested return file exists",
    "external program = /bin/sh script; hash sensitivity is obtained by changing a job argument that appears in the command line",
]
_counter = itertools.count()


def _dir(tag):
    d = os.path.join(os.environ["VF_SCRATCH"], "c18", f"{os.getpid()}-{tag}{next(_counter)}")
    os.makedirs(d, exist_ok=True)
    return d


def make_driver():
    import molli as ml
    from molli.pipeline.driver import DriverBase
    from molli.pipeline.job import Job, JobInput

    def _script0(key, planroot, arg):
        # first, UNNAMED command: counts the attempt; may fail ("prepfail": always, "prepfail1": on the first attempt only)
        c, p = shlex.quote(f"{planroot}/{key}.count"), shlex.quote(f"{planroot}/{key}.plan")
        return (
            f"n=$(cat {c} 2>/dev/null || echo 0); n=$((n+1)); echo $n > {c}; plan=$(cat {p}); "
            f"case \"$plan\" in prepfail) exit 5 ;; prepfail1) [ \"$n\" -ge 2 ] || exit 5 ;; esac"
        )

    def _script(key, planroot, arg):
        c, p = shlex.quote(f"{planroot}/{key}.count"), shlex.quote(f"{planroot}/{key}.plan")
        return (
            f"n=$(cat {c} 2>/dev/null || echo 0); plan=$(cat {p}); "
            f"fp=$(cat param.txt); "
            f"echo \"S {key} {arg}/$fp/$VF_EARG $n\"; "
            f"case \"$plan\" in "
            f"ok|prepfail|prepfail1) echo \"R {key} {arg}/$fp/$VF_EARG $n\" > result.txt ;; "
            f"fail) exit 3 ;; "
            f"nofile) : ;; "
            f"okempty) : > result.txt ;; "
            f"okat*) k=${{plan#okat}}; if [ \"$n\" -ge \"$k\" ]; then echo \"R {key} {arg}/$fp/$VF_EARG $n\" > result.txt; else exit 4; fi ;; "
            f"esac"
        )

    MISSING = "/nonexistent/vf-missing-exe"
    OPTS = {"strfiles": False, "plain": False, "reduce": "all"}     # (prep's `self` is the bound job, not the driver: the switch lives in this closure)

    def _cmds(exe, key, planroot, arg, broken=()):
        # `key` in broken: no command of the unit can be started; "late:"+key: only the SECOND command cannot (the first one has run by then)
        exe0 = MISSING if key in broken else exe
        exe1 = MISSING if (key in broken or "late:" + key in broken) else exe
        return [(f"{exe0} -c {shlex.quote(_script0(key, planroot, arg))}", None), (f"{exe1} -c {shlex.quote(_script(key, planroot, arg))}", "calc")]

    def _files(self, M, farg):
        # input files as bytes (what the bundled drivers pass) or as str (which the runner accepts just as well)
        if OPTS["strfiles"]:
            return {"m.xyz": M.dumps_xyz(), "param.txt": str(farg)}
        return {"m.xyz": M.dumps_xyz().encode(), "param.txt": str(farg).encode()}

    def _key(M):
        cid = getattr(M, "_conf_id", None)
        return M.name if cid is None else f"{M.name}.{cid}"

    class CDriver(DriverBase):
        default_executable = "sh"

        # post-processor that needs the returned file
        # (the files asked back: the result, and two of the job's own input files - their ORDER is part of what the job declares)
        @Job(return_files=("result.txt", "param.txt", "m.xyz")).prep
        def calc(self, M, planroot=None, arg=0, broken=(), farg=0, earg=0):
            # `arg` goes into the command line, `farg` only into the CONTENT of an input file, `earg` only into the VALUE of an environment variable
            return JobInput(M.name, commands=_cmds(self.executable, _key(M), planroot, arg, broken),
                            files=_files(self, M, farg), return_files=self.return_files, envars={"VF_EARG": str(earg)})

        @calc.post
        def calc(self, out, M, planroot=None, arg=0, broken=(), farg=0, earg=0):
            txt = out.files["result.txt"].decode().strip()
            if isinstance(M, ml.chem.ensemble.Conformer):
                return txt
            if OPTS["plain"]:
                return plain_value(txt)      # a plain (possibly falsy) value for a generic Collection
            res = ml.Molecule(M)
            res.attrib["result"] = txt
            return res

        calc_ens = Job.vectorize(calc)

        @calc_ens.reduce
        def calc_ens(self, outputs, ens, *a, **kw):
            # a reduce step may look at every per-conformer result, or stop after the first one it needs
            texts = list(outputs) if OPTS["reduce"] == "all" else [next(iter(outputs))]
            new = ml.ConformerEnsemble(ens)
            new.attrib["results"] = texts
            return new

        # the same job declared with job-level environment variables (the documented `envars=` parameter of Job)
        calcenv = Job(return_files=("result.txt", "param.txt", "m.xyz"), envars={"VF_JOB_LEVEL": "declared", "OMP_NUM_THREADS": "1"}).prep(calc._prep).post(calc._post)
        calcenv_ens = Job.vectorize(calcenv).reduce(calc_ens._reduce)

        # post-processor that only reads stdout (never notices by itself that the run failed); the file it asks back is one of its
        # own input files, so "every requested file exists" holds as soon as the scratch directory is populated
        @Job(return_files=("param.txt", "m.xyz")).prep
        def lenient(self, M, planroot=None, arg=0, broken=(), farg=0, earg=0):
            # `arg` goes into the command line, `farg` only into the CONTENT of an input file, `earg` only into the VALUE of an environment variable
            return JobInput(M.name, commands=_cmds(self.executable, _key(M), planroot, arg, broken),
                            files=_files(self, M, farg), return_files=self.return_files, envars={"VF_EARG": str(earg)})

        @lenient.post
        def lenient(self, out, M, planroot=None, arg=0, broken=(), farg=0, earg=0):
            txt = "R" + out.stdouts["calc"].strip()[1:]
            if isinstance(M, ml.chem.ensemble.Conformer):
                return txt
            if OPTS["plain"]:
                return plain_value(txt)
            res = ml.Molecule(M)
            res.attrib["result"] = txt
            return res

        lenient_ens = Job.vectorize(lenient)

        @lenient_ens.reduce
        def lenient_ens(self, outputs, ens, *a, **kw):
            texts = list(outputs) if OPTS["reduce"] == "all" else [next(iter(outputs))]
            new = ml.ConformerEnsemble(ens)
            new.attrib["results"] = texts
            return new

    drv = CDriver(check_exe=True)
    drv.vf_opts = OPTS
    return drv


_CHILD_SEED = []


def child_hash_seed(k=0):
    """PYTHONHASHSEED values under which a set of the job's file names iterates in ANOTHER order than in this process, and in another
    order for odd and even k (so that anything that silently depends on set / dict-of-str iteration order differs between any two
    consecutive interpreter sessions of a history)"""
    if not _CHILD_SEED:
        import subprocess
        import sys

        names = ("result.txt", "param.txt", "m.xyz")
        seen = {repr(list(set(names)))}
        picks = []
        for cand in range(101, 160):
            out = subprocess.run([sys.executable, "-c", f"print(list(set({names!r})))"], env=dict(os.environ, PYTHONHASHSEED=str(cand)), capture_output=True, text=True).stdout.strip()
            if out and out not in seen:
                seen.add(out)
                picks.append(str(cand))
                if len(picks) == 2:
                    break
        _CHILD_SEED.extend(picks or ["101", "102"])
    return _CHILD_SEED[k % len(_CHILD_SEED)]


def open_dest(plain, vec, path):
    import atexit
    import molli as ml

    if plain:
        from molli.storage import Collection, UkvCollectionBackend
        lib = Collection(path, UkvCollectionBackend, value_encoder=lambda s_: s_.encode(), value_decoder=lambda b_: b_.decode(), readonly=False)
    else:
        lib = (ml.ConformerLibrary if vec else ml.MoleculeLibrary)(path, readonly=False)
    atexit.unregister(lib._backend.flush)
    return lib


def run_jobmap(p):
    """one jobmap run described by plain data (so that it can also happen in ANOTHER interpreter process: python -m vf.c18_child)"""
    import atexit
    import warnings
    import molli as ml
    from molli.pipeline.job import jobmap

    if p.get("cwd"):
        os.chdir(p["cwd"])
    drv = make_driver()
    drv.vf_opts.update(p["opts"])
    src = (ml.ConformerLibrary if p["vec"] else ml.MoleculeLibrary)(p["src_path"], readonly=True)
    atexit.unregister(src._backend.flush)
    dst = open_dest(p["plain"], p["vec"], p["dst_path"])
    kw = dict(p["kwargs"])
    kw["broken"] = tuple(kw["broken"])
    with warnings.catch_warnings():
        warnings.simplefilter("ignore")
        jobmap(getattr(drv, p["jobname"]), src, dst, cache_dir=p["cache_dir"], scratch_dir=p["scratch"], n_workers=p["n_workers"],
               **({"args": tuple(p["args"]), "kwargs": kw} if p["args"] is not None else {"kwargs": kw}), progress=False, log_level=p["loglevel"], **({"strict_hash": False} if p["lax"] else {}))


def plain_value(txt):
    """result stored in a generic Collection: the text, or the empty string for results of a FIRST attempt (a valid, falsy value)"""
    return "" if txt.endswith(" 1") else txt


def outcome(plan, n):
    """(commands succeeded and return file present?) for attempt number n"""
    if plan in ("ok", "okempty"):
        return True
    if plan in ("fail", "nofile", "prepfail"):
        return False
    if plan == "prepfail1":
        return n >= 2
    if plan.startswith("okat"):
        return n >= int(plan[4:])
    raise HarnessError("bad plan")


def check(r) -> list[Fail]:
    import atexit
    import warnings
    import molli as ml
    from molli.pipeline.job import jobmap

    d = _dir("h")
    fails: list[Fail] = []
    cwd0 = os.getcwd()
    try:
        planroot = os.path.join(d, "plans")
        os.makedirs(planroot)
        vec = r["vec"]
        nitems = len(r["items"])
        keys = [(f"k{i}" if i % 2 else f"lig.{i}") for i in range(nitems)]      # every other key has a dot in it (conformer ids, versions)
        if r.get("dotkeys"):
            keys = [(f"lig.{i}" if i % 2 == 0 else f"k{i}.v2.x") for i in range(nitems)]
        # ---- source library
        src_path = os.path.join(d, "src." + ("clib" if vec else "mlib"))
        Lib = ml.ConformerLibrary if vec else ml.MoleculeLibrary
        src = Lib(src_path, readonly=False)
        atexit.unregister(src._backend.flush)
        units = {}      # key -> list of unit keys (the item itself, or its conformers)
        with src.writing():
            for k, it in zip(keys, r["items"]):
                m = ml.Molecule(["C", "O"], name=k, coords=[[0.0, 0.0, 0.0], [1.2 + 0.01 * len(k), 0.0, 0.0]])
                if vec:
                    nconf = it["nconf"]
                    e = ml.ConformerEnsemble(m, n_conformers=nconf, coords=[[[0.0, 0.0, 0.0], [1.2 + 0.1 * j, 0.0, 0.0]] for j in range(nconf)])
                    src[k] = e
                    units[k] = [f"{k}.{j}" for j in range(nconf)]
                else:
                    src[k] = m
                    units[k] = [k]
        for k, it in zip(keys, r["items"]):
            for j, u in enumerate(units[k]):
                with open(os.path.join(planroot, u + ".plan"), "w") as f:
                    f.write(it["plans"][j % len(it["plans"])])
        plan = {u: it["plans"][j % len(it["plans"])] for k, it in zip(keys, r["items"]) for j, u in enumerate(units[k])}
        # ---- destination (possibly pre-populated)
        plain = bool(r.get("plain")) and not vec
        if plain:
            from molli.storage import Collection, UkvCollectionBackend

            def Lib(p_, readonly=False):     # noqa: a generic Collection of strings instead of a molecule library
                return Collection(p_, UkvCollectionBackend, value_encoder=lambda s_: s_.encode(), value_decoder=lambda b_: b_.decode(), readonly=readonly)
        dst_path = os.path.join(d, "dst." + ("clib" if vec else "mlib"))
        dst = Lib(dst_path, readonly=False)
        atexit.unregister(dst._backend.flush)
        model_dst = {}
        pre = [keys[i % nitems] for i in r["pre_source_keys"]]
        foreign = [f"foreign{i}" for i in range(r["n_foreign"])]
        if pre or foreign:
            with dst.writing():
                for k in dict.fromkeys(pre + foreign):
                    m = ml.Molecule(["N"], name=k, coords=[[0.0, 0.0, 0.0]])
                    if plain:
                        dst[k] = "PRE " + k
                        model_dst[k] = "PRE " + k
                    elif vec:
                        e = ml.ConformerEnsemble(m, n_conformers=1, coords=[[[0.0, 0.0, 0.0]]])
                        e.attrib["results"] = ["PRE " + k]
                        dst[k] = e
                        model_dst[k] = ["PRE " + k]
                    else:
                        m.attrib["result"] = "PRE " + k
                        dst[k] = m
                        model_dst[k] = "PRE " + k
        drv = make_driver()
        jobname = ("lenient" if r["lenient"] else "calcenv" if r.get("jobenv") else "calc") + ("_ens" if vec else "")
        cache_dir = os.path.join(d, "cache")
        scratch = os.path.join(d, "scratch")
        if r.get("relcache"):
            # cache and scratch directories named relative to the current directory
            os.chdir(d)
            cache_dir, scratch = "cache", os.path.join(".", "scratch")
        count = {u: 0 for us in units.values() for u in us}
        cache = {}     # unit -> (arg, success, text)   [arg stands for the hash: same script <=> same arg]
        n_exec_total = 0
        for ri, run in enumerate(r["runs"]):
            arg = run["arg"]
            farg, earg = run.get("farg", 0), run.get("earg", 0)
            # ---- cache events before the run
            outdir = os.path.join(cache_dir, "output")
            for ev in run["cache_events"]:
                us = [u for k in keys for u in units[k]]
                if ev[0] == "delete" and us:
                    u = us[ev[1] % len(us)]
                    p = os.path.join(outdir, u + ".out")
                    if os.path.exists(p):
                        os.unlink(p)
                    cache.pop(u, None)
                elif ev[0] == "truncate":
                    u = us[ev[1] % len(us)]
                    p = os.path.join(outdir, u + ".out")
                    if os.path.exists(p):
                        # the runner was killed (or the disk filled up) while it wrote this output: half a file, or an empty one
                        data = open(p, "rb").read()
                        with open(p, "wb") as fh:
                            fh.write(data[: len(data) // 2] if ev[1] % 2 else b"")
                        cache.pop(u, None)
                elif ev[0] == "pollute" and len(us) >= 2:
                    a, b = us[ev[1] % len(us)], us[ev[2] % len(us)]
                    pa, pb = os.path.join(outdir, a + ".out"), os.path.join(outdir, b + ".out")
                    if a != b and os.path.exists(pa):
                        shutil.copyfile(pa, pb)          # b's cache slot now holds the output of ANOTHER input
                        cache[b] = ("foreign-input", cache[a][1], cache[a][2]) if a in cache else None
                        if cache[b] is None:
                            cache.pop(b)
            if run.get("new_dest") and ri > 0:
                # the user points the same calculation (same cache directory) at a new, empty destination
                dst_path = os.path.join(d, f"dst{ri}." + ("clib" if vec else "mlib"))
                dst = Lib(dst_path, readonly=False)
                atexit.unregister(dst._backend.flush)
                model_dst = {}
                pre, foreign = [], []
            all_units = [u for k in keys for u in units[k]]
            broken = sorted({all_units[i % len(all_units)] for i in run.get("broken", [])})   # units whose executable cannot be started in this run
            late = sorted({all_units[i % len(all_units)] for i in run.get("late", [])} - set(broken))   # units whose SECOND command cannot be started
            drv.vf_opts["strfiles"] = bool(r.get("strfiles"))
            drv.vf_opts["plain"] = plain
            drv.vf_opts["reduce"] = "first" if r.get("reduce_first") else "all"
            job = getattr(drv, jobname)
            before_counts = dict(count)
            try:
                if run.get("subproc"):
                    # this run happens in a NEW interpreter session (a rerun on another day): other process, other string-hash seed
                    import json
                    import subprocess
                    import sys
                    brk_ = list(broken) + ["late:" + u for u in late]
                    par = {"cwd": d if r.get("relcache") else None, "opts": dict(drv.vf_opts), "vec": vec, "plain": plain, "src_path": src_path, "dst_path": dst_path, "jobname": jobname,
                           "cache_dir": cache_dir, "scratch": scratch, "n_workers": [4, 1, 2, 4][ri % 4 if r.get("posargs") else 0],
                           "args": [planroot, arg] if r.get("posargs") else None,
                           "kwargs": ({"broken": brk_, "farg": farg, "earg": earg} if r.get("posargs") else {"planroot": planroot, "arg": arg, "broken": brk_, "farg": farg, "earg": earg}),
                           "loglevel": run.get("loglevel", "critical"), "lax": bool(run.get("lax"))}
                    pf = os.path.join(d, f"run{ri}.json")
                    with open(pf, "w") as fh_:
                        json.dump(par, fh_)
                    cp_ = subprocess.run([sys.executable, "-m", "vf.c18_child", pf], env=dict(os.environ, PYTHONHASHSEED=child_hash_seed(ri)), capture_output=True, text=True, timeout=600)
                    if cp_.returncode != 0:
                        fails.append(Fail("jobmap-raises:in-a-new-interpreter-session", f"run {ri} ({jobname}): exit {cp_.returncode}: {cp_.stderr[-300:]}"))
                        return fails
                else:
                  with warnings.catch_warnings():
                    warnings.simplefilter("ignore")
                    jobmap(job, src, dst, cache_dir=cache_dir, scratch_dir=scratch, n_workers=[4, 1, 2, 4][ri % 4 if r.get("posargs") else 0],
                           # job arguments handed over positionally (args=) in some histories, by keyword in the others
                           **({"args": (planroot, arg), "kwargs": {"broken": tuple(broken) + tuple("late:" + u for u in late), "farg": farg, "earg": earg}} if r.get("posargs") else
                              {"kwargs": {"planroot": planroot, "arg": arg, "broken": tuple(broken) + tuple("late:" + u for u in late), "farg": farg, "earg": earg}}), progress=False, log_level=run.get("loglevel", "critical"), **({"strict_hash": False} if run.get("lax") else {}))
            except Exception as e:
                s = exc_sig(e)
                if s is None:
                    raise
                why = "foreign-destination-key" if foreign and isinstance(e, KeyError) else "cached-output-present" if cache else "other"
                fails.append(Fail(f"jobmap-raises:{s}", f"run {ri} ({jobname}, {why}; dest keys {sorted(model_dst)}; cache {sorted(cache)}): {e!r}"[:400]))
                return fails
            # ---- model of the run
            exp_exec = {}
            for k in keys:
                if k in model_dst:
                    continue
                texts, ok_all = [], True
                for u in units[k]:
                    c = cache.get(u)
                    hkey = (arg, farg, earg, u in broken, u in late)      # everything the input consists of: command line, file contents, environment values
                    # strict_hash=False (the caller's explicit choice): any successful cached output of the unit is taken, whatever its input was
                    if c is not None and (c[0] == hkey or run.get("lax")) and c[1]:
                        texts.append(c[2])
                        continue
                    if u in broken:
                        # the runner cannot start the program: nothing runs, no new output is written, the old cache slot stays as it is
                        ok_all = False
                        continue
                    n = count[u] + 1
                    exp_exec[u] = 1
                    if u in late and not (plan[u] == "prepfail" or (plan[u] == "prepfail1" and n < 2)):
                        # the first command ran (attempt counted), the second cannot be started: the runner dies, no output is written
                        count[u] = n
                        ok_all = False
                        continue
                    ok = outcome(plan[u], n) or (r["lenient"] and plan[u] == "nofile")   # the lenient job does not ask for result.txt
                    txt = f"R {u} {arg}/{farg}/{earg} {n}"
                    if plan[u] == "okempty" and not r["lenient"]:
                        txt = ""        # the program succeeded and its result file is legitimately EMPTY (no hits, no warnings): a result like any other
                    cache[u] = (hkey, ok, txt)
                    count[u] = n
                    if ok:
                        texts.append(txt)
                    else:
                        ok_all = False
                if ok_all:
                    model_dst[k] = (texts[:1] if r.get("reduce_first") else texts) if vec else (plain_value(texts[0]) if plain else texts[0])
            # ---- observations
            for u in count:
                p = os.path.join(planroot, u + ".count")
                got = int(open(p).read().strip()) if os.path.exists(p) else 0
                if got != count[u]:
                    was = before_counts[u]
                    kind = "executed-although-not-needed" if got > count[u] else "not-executed-although-needed"
                    why = ("item already in destination" if u.split(".")[0] in model_dst and exp_exec.get(u) is None and any(u.split(".")[0] == k for k in pre) else
                           "valid cached success for the same input" if got > count[u] else "no valid cached result")
                    fails.append(Fail(f"execution-count-wrong:{kind}", f"run {ri} ({jobname}, arg {arg}): unit {u} executed {got - was} time(s), expected {count[u] - was} ({why}); plan {plan[u]}"))
                    count[u] = got
            n_exec_total += sum(exp_exec.values())
            with dst.reading():
                got_keys = set(dst.keys())
                if got_keys != set(model_dst):
                    extra, miss = sorted(got_keys - set(model_dst)), sorted(set(model_dst) - got_keys)
                    if extra:
                        u0 = extra[0]
                        fails.append(Fail("destination-has-result-of-unsuccessful-item", f"run {ri} ({jobname}): {extra} stored although their run did not succeed (plans {[plan.get(u0 + ('.0' if vec else ''), '?')]})"))
                    if miss:
                        fails.append(Fail("destination-lacks-successful-item", f"run {ri} ({jobname}): {miss}"))
                for k in sorted(got_keys & set(model_dst)):
                    obj = dst[k]
                    got = obj if plain else list(obj.attrib.get("results")) if vec else obj.attrib.get("result")
                    if got != model_dst[k]:
                        kind = "foreign-key-altered" if k in foreign else "prepopulated-key-altered" if k in pre else "wrong-result-stored"
                        fails.append(Fail(f"destination-content-wrong:{kind}", f"run {ri} ({jobname}): {k}: stored {got!r}, expected {model_dst[k]!r}"))
            if fails:
                break
        nt = any(run["arg"] != r["runs"][0]["arg"] for run in r["runs"][1:]) or any(p != "ok" for it in r["items"] for p in it["plans"])
        tally(units=max(0, len(r["runs"]) - 1), labels={"jobs_executed": n_exec_total, "runs": len(r["runs"])})
    finally:
        try:
            os.chdir(cwd0)
        except Exception:
            pass
        shutil.rmtree(d, ignore_errors=True)
    seen, out = set(), []
    for f in fails:
        if f.sig not in seen:
            seen.add(f.sig)
            out.append(f)
    return out


def classify(r):
    plans = [p for it in r["items"] for p in it["plans"]]
    fails_somewhere = any(p != "ok" for p in plans)
    arg_change = len({(run["arg"], run.get("farg", 0), run.get("earg", 0)) for run in r["runs"]}) > 1
    lab = ["vectorised" if r["vec"] else "single", "lenient_post" if r["lenient"] else "strict_post", f"runs={len(r['runs'])}"]
    if fails_somewhere:
        lab.append("rerun_after_failure")
    if arg_change:
        lab.append("argument_change")
    if len({run.get("farg", 0) for run in r["runs"]}) > 1:
        lab.append("only_file_content_changes_somewhere")
    if len({run.get("earg", 0) for run in r["runs"]}) > 1:
        lab.append("only_env_value_changes_somewhere")
    if any(run.get("lax") for run in r["runs"]):
        lab.append("strict_hash_off_somewhere")
    if any(run.get("subproc") for run in r["runs"]):
        lab.append("some_run_in_a_new_interpreter_session")
    if any(run.get("loglevel") == "debug" for run in r["runs"]):
        lab.append("debug_logging_somewhere")
    lab.append("job_args=positional" if r.get("posargs") else "job_args=keyword")
    if r["n_foreign"]:
        lab.append("foreign_destination_keys")
    if r["pre_source_keys"]:
        lab.append("prepopulated_source_keys")
    if any(ev[0] == "pollute" for run in r["runs"] for ev in run["cache_events"]):
        lab.append("cache_polluted")
    if any(run.get("new_dest") for run in r["runs"][1:]):
        lab.append("fresh_destination_same_cache")
    lab.append("input_files=str" if r.get("strfiles") else "input_files=bytes")
    if r.get("plain") and not r["vec"]:
        lab.append("destination=generic_Collection_with_falsy_values")
    if r.get("jobenv") and not r["lenient"]:
        lab.append("job_declares_envars")
    if r.get("dotkeys"):
        lab.append("keys_with_dots")
    if r["vec"] and r.get("reduce_first"):
        lab.append("reduce_stops_after_first_result")
    if "okempty" in plans:
        lab.append("empty_return_file")
    if r.get("relcache"):
        lab.append("relative_cache_and_scratch_dirs")
    if any(run.get("late") for run in r["runs"]):
        lab.append("second_command_cannot_start_somewhere")
    if any(run.get("broken") for run in r["runs"]):
        lab.append("executable_missing_in_some_run")
    if any(ev[0] == "delete" for run in r["runs"] for ev in run["cache_events"]):
        lab.append("cache_partially_deleted")
    return (fails_somewhere and len(r["runs"]) >= 2) or arg_change, lab


def strat(tier):
    planv = st.sampled_from(["ok", "ok", "fail", "okat2", "okat3", "nofile", "prepfail", "prepfail1", "okempty"])
    item = st.fixed_dictionaries({"nconf": st.integers(1, 3), "plans": st.lists(planv, min_size=1, max_size=3)})
    ev = st.one_of(st.tuples(st.just("delete"), st.integers(0, 20)).map(list), st.tuples(st.just("truncate"), st.integers(0, 20)).map(list), st.tuples(st.just("pollute"), st.integers(0, 20), st.integers(0, 20)).map(list))
    run = st.fixed_dictionaries({"arg": st.sampled_from([0, 0, 0, 1, 2]), "farg": st.sampled_from([0, 0, 0, 1]), "earg": st.sampled_from([0, 0, 0, 1]), "cache_events": st.lists(ev, max_size=2), "new_dest": st.sampled_from([False, False, True]), "lax": st.sampled_from([False, False, False, True]), "loglevel": st.sampled_from(["critical", "critical", "debug", "info"]), "subproc": st.sampled_from([False, True]),
                                 "broken": st.one_of(st.just([]), st.just([]), st.lists(st.integers(0, 20), min_size=1, max_size=2)),
                                 "late": st.one_of(st.just([]), st.just([]), st.lists(st.integers(0, 20), min_size=1, max_size=2))}).map(
        # a run in a new interpreter session that repeats the plain arguments usually also points at a fresh destination: everything it needs is in the cache
        lambda x: dict(x, new_dest=True) if (x["subproc"] and x["arg"] == 0 and x["farg"] == 0) else x)
    return st.fixed_dictionaries({
        "vec": st.booleans(), "lenient": st.booleans(),
        "items": st.lists(item, min_size=2, max_size=4 if tier == "quick" else 5),
        "pre_source_keys": st.lists(st.integers(0, 9), max_size=2), "n_foreign": st.sampled_from([0, 0, 1, 2]),
        "runs": st.lists(run, min_size=2, max_size=3 if tier == "quick" else 4),
        "posargs": st.booleans(), "strfiles": st.booleans(), "dotkeys": st.booleans(), "relcache": st.booleans(), "plain": st.sampled_from([False, False, True]),
        "reduce_first": st.sampled_from([False, True]), "jobenv": st.sampled_from([False, False, True]),
    })


def enum_sessions(tier, shard, nshards):
    """fixed histories whose second run happens in a NEW interpreter session with everything it needs already in the cache"""
    run0 = {"arg": 0, "farg": 0, "earg": 0, "cache_events": [], "new_dest": False, "lax": False, "broken": [], "late": [], "loglevel": "critical", "subproc": False}
    base = {"pre_source_keys": [], "n_foreign": 0, "posargs": False, "strfiles": False, "dotkeys": False, "relcache": False, "plain": False, "reduce_first": False, "jobenv": False}
    cases = [
        dict(base, vec=False, lenient=False, items=[{"nconf": 1, "plans": ["ok"]}, {"nconf": 1, "plans": ["ok"]}], runs=[run0, dict(run0, new_dest=True, subproc=True)]),
        dict(base, vec=True, lenient=False, items=[{"nconf": 2, "plans": ["ok", "okat2"]}, {"nconf": 1, "plans": ["ok"]}], runs=[run0, dict(run0, subproc=True)]),
        dict(base, vec=False, lenient=True, items=[{"nconf": 1, "plans": ["ok"]}, {"nconf": 1, "plans": ["fail"]}], runs=[dict(run0, subproc=True), dict(run0, new_dest=True), dict(run0, new_dest=True, subproc=True)]),
        dict(base, vec=True, lenient=False, jobenv=True, items=[{"nconf": 3, "plans": ["ok", "fail", "ok"]}], runs=[dict(run0, subproc=True), dict(run0, subproc=True)]),
    ]
    for i, c in enumerate(cases):
        if i % nshards == shard:
            yield c


LEGS = [
    Leg("sessions", check, classify, enumerate=enum_sessions, exhaustive=True, shards={"quick": 4, "thorough": 4}, timeout={"quick": 900, "thorough": 900},
        rule="4 fixed histories in which a rerun happens in a new interpreter process (string-hash seed chosen so that set iteration order differs) with every needed output already cached: nothing may be executed again"),
    Leg("hist", check, classify, strategy=strat, n={"quick": 48, "thorough": 600}, shards={"quick": 16, "thorough": 16}, timeout={"quick": 900, "thorough": 14000},
        rule="generated histories: 2-4/5 items (single molecules or ensembles of 1-3 conformers) with per-unit plans {ok, ok with an EMPTY return file, fail, ok at 2nd/3rd attempt, omit return file, first (unnamed) command fails always / once}, 2-3/4 jobmap runs whose arguments change the command line, only the content of an input file, or only the value of an environment variable (all must change the hash), "
             "0-2 pre-populated source keys, 0-2 foreign destination keys, cache events (delete one output, copy another input's output into a slot) between runs, optionally a fresh empty destination with the old cache directory, runs in which the program of some unit cannot be started (the runner dies before writing an output), strict (needs return file) and lenient (stdout only) post-processors, strict_hash on (default) / off per run, log level critical / info / debug per run, a run may happen in a new interpreter process (other string-hash seed), "
             "single and vectorised jobs (reduce step consuming all per-conformer results or only the first); every job is a real _molli_run launch; evaluations = jobmap runs; non-trivial = a rerun after a failure, or an argument change with a populated cache"),
]
