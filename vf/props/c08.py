"""C08 — xyz round trip and unit handling: coordinates mean what the file says.

Legs
  rt     generated geometries / ensembles: dumps_xyz -> every loader entry point; count, order,
         elements, coordinates at the written precision, frame by frame
  units  metamorphic: the same Angstrom geometry expressed in unit U with the PHYSICAL factor
         (CODATA, held by the harness), written as xyz / mol2, read with source_units=U:
         pairwise distances must equal the Angstrom originals
"""
from __future__ import annotations

import io
import os
import math

import numpy as np
from hypothesis import strategies as st

from vf import chem
from vf.core import Fail, Leg, HarnessError

LEVEL = "exploration"
ASSUMPTIONS = [
    "xyz carries no names, charges or bonds: not compared",
    "unit leg tolerance 1e-5 relative: the Bohr entry of molli's table carries 6 digits",
]
# units per Angstrom, from CODATA 2018 (Bohr radius 0.529177210903 A); NOT read from molli
PHYS = {"A": 1.0, "Angstrom": 1.0, "Bohr": 1.0 / 0.529177210903, "au": 1.0 / 0.529177210903, "fm": 1e5, "pm": 100.0, "nm": 0.1}


def _close(a, b, tol=5e-7):
    if a != a or b != b:
        return a != a and b != b
    if math.isinf(a) or math.isinf(b):
        return a == b
    return abs(a - b) <= tol + 4 * np.spacing(abs(a))


FMTS = [None, None, "12.6f", "14.8f", "18.12f", "20.10e", "10.3f", ".4f", "16.9e"]


def _fmt_tol(fmt):
    """written precision of a format: (absolute, relative) half-unit of the last written digit"""
    if fmt is None:
        return 5e-7, 0.0
    d = int(fmt.split(".")[1][:-1])
    return (0.5 * 10.0 ** -d * 1.0000001, 0.0) if fmt.endswith("f") else (0.0, 0.5 * 10.0 ** -d * 1.0000001)


def _cmp_geom(obj_atoms, obj_coords, back, fails, kind, where, tol=(5e-7, 0.0)):
    if back.n_atoms != len(obj_atoms):
        fails.append(Fail(f"{kind}:atom-count-differs", f"{where}: {len(obj_atoms)} -> {back.n_atoms}"))
        return
    for i, (a, b) in enumerate(zip(obj_atoms, back.atoms)):
        if int(a.element) != int(b.element):
            fails.append(Fail(f"{kind}:element-differs", f"{where}: atom {i} {a.element!r} -> {b.element!r}"))
            return
    cb = np.asarray(back.coords, dtype=float)
    co = np.asarray(obj_coords, dtype=float)
    if cb.shape != co.shape:
        fails.append(Fail(f"{kind}:coords-shape-differs", f"{where}: {co.shape} -> {cb.shape}"))
        return
    for x, y in zip(co.ravel(), cb.ravel()):
        if not _close(float(x), float(y), tol[0] + tol[1] * (abs(float(x)) if math.isfinite(float(x)) else 0.0)):
            fails.append(Fail(f"{kind}:coordinate-differs", f"{where}: {x!r} -> {y!r}"))
            return


def check_rt(recipe) -> list[Fail]:
    import molli as ml
    from vf.core import exc_sig

    fails: list[Fail] = []
    kind, entry, r = recipe["kind"], recipe["entry"], recipe["mol"]
    try:
        if kind == "ConformerEnsemble":
            obj = chem.build_ensemble(r)
            if obj.n_conformers < 1:
                raise HarnessError(">=1 frame")
            if recipe.get("blank_name"):
                obj.name = ["", " ", "\t"][recipe["blank_name"] - 1]      # an empty / blank name gives a blank comment line
            text = obj.dumps_xyz()
            via = recipe.get("via", 0)
            if via:
                # the ensemble reaches the disk through the module-level writer (path, mode "w" or "a" on a fresh file) and is read from there
                import tempfile
                fd_, p_ = tempfile.mkstemp(suffix=".xyz", dir=os.environ.get("VF_SCRATCH") or None)
                os.close(fd_)
                os.unlink(p_)
                try:
                    ml.dump(obj, p_, "xyz", mode="w" if via == 1 else "a")
                    text = open(p_).read()
                finally:
                    if os.path.exists(p_):
                        os.unlink(p_)
            if entry == "ens":
                back = ml.ConformerEnsemble.loads_xyz(text)
                if back.n_conformers != obj.n_conformers:
                    return [Fail("ens:frame-count-differs", f"{obj.n_conformers} -> {back.n_conformers}")]
                for i in range(obj.n_conformers):
                    _cmp_geom(obj.atoms, obj.coords[i], back[i], fails, "ens", f"frame {i}")
                    if fails:
                        break
            else:
                cls = ml.Molecule if entry == "all_mol" else ml.CartesianGeometry
                frames = cls.loads_all_xyz(text) if entry != "all_stream" else cls.load_all_xyz(io.StringIO(text))
                if not isinstance(frames, list) or len(frames) != obj.n_conformers:
                    return [Fail("ens:frame-count-differs", f"{obj.n_conformers} -> {len(frames)} via loads_all_xyz")]
                for i, f in enumerate(frames):
                    _cmp_geom(obj.atoms, obj.coords[i], f, fails, "ens", f"frame {i}")
                    if fails:
                        break
            if not fails and recipe.get("grow") and obj.n_atoms:
                # the ensemble has been written (iterated) once; it GROWS by one conformer and is written again: one frame more
                obj.append(ml.Molecule(obj[0]))
                frames2 = ml.CartesianGeometry.loads_all_xyz(obj.dumps_xyz())
                if len(frames2) != obj.n_conformers:
                    return [Fail("ens:frame-count-differs:written-again-after-growing", f"{obj.n_conformers} conformers -> {len(frames2)} frames")]
                _cmp_geom(obj.atoms, obj.coords[-1], frames2[-1], fails, "ens", "last frame after growing")
        elif kind == "Substructure":
            # a view over some atoms of a molecule, in an order of its own: what is written is the view (its atoms, their coordinates)
            parent = chem.build_molecule(r, ml.Molecule)
            n = parent.n_atoms
            idx = list(dict.fromkeys(i % n for i in recipe["sub"])) if n else []
            if not idx:
                return []
            sub = parent.substructure(idx)
            text = sub.dumps_xyz()
            back = ml.CartesianGeometry.loads_xyz(text)
            _cmp_geom([parent.atoms[i] for i in idx], np.asarray(parent.coords, dtype=float)[idx], back, fails, "view", f"view {idx} of {n} atoms")
        else:
            cls = {"CartesianGeometry": ml.CartesianGeometry, "Structure": ml.Structure, "Molecule": ml.Molecule}[kind]
            if kind == "CartesianGeometry":
                atoms = chem.build_atoms(r)
                obj = cls(atoms, name=r["name"], coords=np.array(r["coords"], dtype=float).reshape((len(atoms), 3)))
            else:
                obj = chem.build_molecule(r, cls)
            if recipe.get("blank_name"):
                obj.name = ["", " ", "\t"][recipe["blank_name"] - 1]
            fmt = FMTS[recipe.get("fmt", 0)]
            if fmt is None:
                text = obj.dumps_xyz()
            else:
                # the public fmt option: what is written (to that many digits) is what must come back
                buf = io.StringIO()
                obj.dump_xyz(buf, fmt=fmt)
                text = buf.getvalue()
            if entry == "loads":
                back = cls.loads_xyz(text)
            elif entry == "load_stream":
                back = cls.load_xyz(io.StringIO(text))
            elif entry in ("loads_all", "all_mol", "all_stream", "ens"):
                res = cls.loads_all_xyz(text)
                if len(res) != 1:
                    return [Fail("geom:frame-count-differs", f"1 -> {len(res)}")]
                back = res[0]
            else:
                raise HarnessError("bad entry")
            if type(back) is not cls:
                fails.append(Fail("geom:wrong-class-returned", f"{cls.__name__} -> {type(back).__name__}"))
            _cmp_geom(obj.atoms, obj.coords, back, fails, "geom" if fmt is None else "geom:fmt", entry + (f" fmt={fmt}" if fmt else ""), _fmt_tol(fmt))
            # second cycle: text fixed point (what was written is what the file says)
            if not fails and fmt is None and obj.n_atoms and back.dumps_xyz().splitlines()[2:] != text.splitlines()[2:]:
                fails.append(Fail("geom:second-write-differs", ""))
            if not fails and recipe.get("again") and obj.n_atoms:
                # the same object moved / renamed in place and written again: the text must follow the current state
                with np.errstate(all="ignore"):
                    obj.coords = np.where(np.isfinite(obj.coords), np.asarray(obj.coords) * 0.5 - 0.75, obj.coords)
                obj.name = "edited"
                b2 = cls.loads_xyz(obj.dumps_xyz())
                _cmp_geom(obj.atoms, obj.coords, b2, fails, "geom", entry + " (second write after in-place edit)")
                for f_ in fails:
                    f_.sig += ":second-write-after-in-place-edit"
    except HarnessError:
        raise
    except Exception as e:
        s = exc_sig(e)
        if s is None:
            raise
        n_at = len(r["atoms"])
        fails.append(Fail(f"roundtrip-raises:{s}" + (":zero-atoms" if n_at == 0 else ""), f"{kind}/{entry}: {e!r}"[:300]))
    return fails


def check_multi(recipe) -> list[Fail]:
    """several DIFFERENT geometries in one xyz text (same or different atom counts): every frame keeps its own elements and coordinates"""
    import molli as ml
    from vf.core import exc_sig

    fails: list[Fail] = []
    geoms = []
    for r in recipe["mols"]:
        atoms = chem.build_atoms(r)
        geoms.append(ml.CartesianGeometry(atoms, name=r["name"], coords=np.array(r["coords"], dtype=float).reshape((len(atoms), 3))))
    text = "".join(g.dumps_xyz() for g in geoms)
    try:
        for entry in recipe["entries"]:
            if entry == "geom":
                frames = ml.CartesianGeometry.loads_all_xyz(text)
            elif entry == "mol":
                frames = ml.Molecule.loads_all_xyz(text)
            elif entry == "stream":
                frames = ml.Structure.load_all_xyz(io.StringIO(text))
            elif entry == "handle":
                # ONE open handle read piecemeal: the first frame through the generator, the rest from where the handle stands
                fh = io.StringIO(text)
                frames = [next(ml.CartesianGeometry.yield_from_xyz(fh))] + list(ml.CartesianGeometry.load_all_xyz(fh))
            elif entry == "positioned":
                # a handle that stands at the beginning of the SECOND geometry: reading starts there
                fh = io.StringIO(text)
                fh.seek(len(geoms[0].dumps_xyz()))
                frames = [geoms[0]] + list(ml.Molecule.load_all_xyz(fh))
            else:
                frames = list(ml.CartesianGeometry.yield_from_xyz(io.StringIO(text)))
            if len(frames) != len(geoms):
                return [Fail("multi:frame-count-differs", f"{entry}: {len(geoms)} -> {len(frames)}")]
            if entry == "geom":
                # the strict parser itself, ALL blocks collected first and looked at afterwards (list(read_xyz(f)), blocks[-1] ...)
                from molli.parsing import read_xyz

                blocks = list(read_xyz(io.StringIO(text)))
                if len(blocks) != len(geoms):
                    return [Fail("multi:parser-block-count-differs", f"{len(geoms)} -> {len(blocks)}")]
                for i, (g, b_) in enumerate(zip(geoms, blocks)):
                    cb = np.array(b_.coords, dtype=float).reshape((len(b_.atoms), 3))
                    if b_.n_atoms != g.n_atoms or len(b_.atoms) != g.n_atoms:
                        return [Fail("multi:collected-parser-block-differs:count", f"block {i} of {len(blocks)}: {g.n_atoms} atoms written, block has {len(b_.atoms)} / declares {b_.n_atoms}")]
                    co = np.asarray(g.coords, dtype=float)
                    if any(not _close(float(x), float(y)) for x, y in zip(co.ravel(), cb.ravel())):
                        return [Fail("multi:collected-parser-block-differs:coordinates", f"block {i} of {len(blocks)} (sizes {[x.n_atoms for x in geoms]})")]
            for i, (g, f) in enumerate(zip(geoms, frames)):
                _cmp_geom(g.atoms, g.coords, f, fails, "multi", f"{entry} frame {i} of {len(geoms)} (sizes {[x.n_atoms for x in geoms]})")
                if fails:
                    return fails
    except Exception as e:
        s_ = exc_sig(e)
        if s_ is None:
            raise
        fails.append(Fail(f"multi:raises:{s_}", repr(e)[:300]))
    return fails


def classify_multi(recipe):
    sizes = [len(r["atoms"]) for r in recipe["mols"]]
    same = any(a == b and a > 0 for a, b in zip(sizes, sizes[1:]))
    els = [[a["el"] for a in r["atoms"]] for r in recipe["mols"]]
    differ = any(sa == sb and ea != eb for sa, sb, ea, eb in zip(sizes, sizes[1:], els, els[1:]))
    return differ, ["consecutive_frames_same_size" if same else "sizes_differ"] + (["same_size_different_elements"] if differ else [])


def strat_multi(tier):
    @st.composite
    def case(draw):
        base = draw(chem.molecule_recipe(max_atoms=6, max_bonds=0, attribs=False, mol2_safe=True, min_atoms=1).map(_xyzify))
        n = len(base["atoms"])
        mols = [base]
        for _ in range(draw(st.integers(1, 3))):
            if draw(st.booleans()):
                # same atom count, other elements / order
                other = draw(chem.molecule_recipe(max_atoms=n, max_bonds=0, attribs=False, mol2_safe=True, min_atoms=n).map(_xyzify))
            else:
                other = draw(chem.molecule_recipe(max_atoms=6, max_bonds=0, attribs=False, mol2_safe=True, min_atoms=0).map(_xyzify))
            mols.append(other)
        return {"mols": mols, "entries": draw(st.lists(st.sampled_from(["geom", "mol", "stream", "yield", "handle", "positioned"]), min_size=1, max_size=2, unique=True))}

    return case()


def classify_rt(recipe):
    r = recipe["mol"]
    cs = r["coords"] if recipe["kind"] != "ConformerEnsemble" else [c for f in r["confs"] for c in f]
    labels = ["kind=" + recipe["kind"], "entry=" + recipe["entry"], "fmt=" + str(FMTS[recipe.get("fmt", 0)])]
    if len(r["atoms"]) == 0:
        labels.append("zero_atoms")
    if any(a["atype"] == 100 for a in r["atoms"]):
        labels.append("dummy_atom")
    if any(abs(x) >= 1e5 for c in cs for x in c if x == x and not math.isinf(x)):
        labels.append("large_coord")
    if any(x != x for c in cs for x in c):
        labels.append("nan")
    distinct = len({tuple(map(repr, c)) for c in cs}) >= 2
    return len(r["atoms"]) >= 2 and distinct, labels


def _xyzify(r):
    def cl(x):
        if x != x or math.isinf(x):
            return x
        return max(-1e7, min(1e7, x))

    r = dict(r)
    r["coords"] = [[cl(x) for x in c] for c in r["coords"]]
    if "confs" in r:
        r["confs"] = [[[cl(x) for x in c] for c in f] for f in r["confs"]]
    return r


def strat_rt(tier):
    big = tier != "quick"
    molr = chem.molecule_recipe(max_atoms=30 if big else 12, max_bonds=6, attribs=False, mol2_safe=True).map(_xyzify)
    ensr = chem.ensemble_recipe(max_atoms=8, max_bonds=4, max_conf=5, attribs=False, mol2_safe=True).filter(lambda r: len(r["confs"]) >= 1).map(_xyzify)
    return st.one_of(
        st.fixed_dictionaries({"kind": st.sampled_from(["CartesianGeometry", "Structure", "Molecule"]), "mol": molr, "entry": st.sampled_from(["loads", "loads", "load_stream", "loads_all"]), "fmt": st.integers(0, len(FMTS) - 1), "again": st.booleans(), "blank_name": st.sampled_from([0, 0, 0, 1, 2, 3])}),
        st.fixed_dictionaries({"kind": st.just("ConformerEnsemble"), "mol": ensr, "entry": st.sampled_from(["ens", "ens", "all_mol", "all_geom", "all_stream"]), "blank_name": st.sampled_from([0, 0, 0, 1, 2, 3]), "via": st.sampled_from([0, 0, 1, 2]), "grow": st.booleans()}),
        st.fixed_dictionaries({"kind": st.just("Substructure"), "mol": molr, "entry": st.just("loads"), "sub": st.lists(st.integers(0, 60), min_size=1, max_size=8)}),
    )


# ---------------------------------------------------------------- units
def _pd(c):
    c = np.asarray(c, dtype=float)
    return np.linalg.norm(c[:, None, :] - c[None, :, :], axis=-1)


def check_units(recipe) -> list[Fail]:
    import molli as ml
    from vf.core import exc_sig

    unit, fmt = recipe["unit"], recipe["fmt"]
    if unit not in PHYS:
        raise HarnessError("unknown unit")
    members = set(ml.chem.DistanceUnit.__members__)
    if unit not in members:
        raise HarnessError(f"{unit} is not a DistanceUnit member on this tree")
    r = recipe["mol"]
    ang = np.array(r["coords"], dtype=float).reshape((-1, 3))
    n = len(ang)
    inU = ang * PHYS[unit]
    fails: list[Fail] = []
    try:
        if fmt == "xyz":
            text = f"{n}\nunits\n" + "".join(f"{ml.chem.Element(a['el']).symbol:<5} {x:20.10f} {y:20.10f} {z:20.10f}\n" for a, (x, y, z) in zip(r["atoms"], inU))
            if recipe["entry"] == "ens":
                got = ml.ConformerEnsemble.loads_xyz(text + text, source_units=unit)
                got_c = [np.asarray(got.coords[i]) for i in range(got.n_conformers)]
            elif recipe["entry"] == "all":
                got_c = [np.asarray(g.coords) for g in ml.Molecule.loads_all_xyz(text + text, source_units=unit)]
            else:
                got_c = [np.asarray(ml.CartesianGeometry.loads_xyz(text, source_units=unit).coords)]
        else:
            m = chem.build_molecule(dict(r, coords=inU.tolist(), bonds=[]), ml.Molecule)
            for a in m.atoms:
                a.atype = ml.chem.AtomType.Regular
            text = m.dumps_mol2().replace("nan", "nan")
            if recipe["entry"] == "ens":
                got = ml.ConformerEnsemble.loads_mol2(text + text, source_units=unit)
                got_c = [np.asarray(got.coords[i]) for i in range(got.n_conformers)]
            elif recipe["entry"] == "all":
                got_c = [np.asarray(g.coords) for g in ml.Molecule.loads_all_mol2(text + text, source_units=unit)]
            else:
                got_c = [np.asarray(ml.Structure.loads_mol2(text, source_units=unit).coords)]
    except Exception as e:
        s = exc_sig(e)
        if s is None:
            raise
        return [Fail(f"units:{fmt}:reader-raises:{s}", f"unit {unit} entry {recipe['entry']}: {e!r}"[:300])]
    want = _pd(ang)
    scale = max(1e-9, float(np.max(want))) if n else 1.0
    exp_frames = 1 if recipe["entry"] == "one" else 2
    if len(got_c) != exp_frames:
        return [Fail(f"units:{fmt}:frame-count", f"{len(got_c)} frames")]
    for gc in got_c:
        if gc.shape != ang.shape:
            return [Fail(f"units:{fmt}:shape", f"{gc.shape}")]
        got = _pd(gc)
        # written precision: 1e-6 (mol2) / 1e-10 (xyz) in unit U -> distances in A differ by at most ~2e-6/PHYS + 1e-5 relative
        tol = 1e-5 * scale + 4e-6 / PHYS[unit]
        if n and float(np.max(np.abs(got - want))) > tol:
            i, j = np.unravel_index(np.argmax(np.abs(got - want)), got.shape)
            ratio = got[i, j] / want[i, j] if want[i, j] else float("nan")
            how = "ignored" if abs(ratio - PHYS[unit]) < 1e-3 * PHYS[unit] else "inverted" if abs(ratio - PHYS[unit] ** 2) < 1e-3 * PHYS[unit] ** 2 else "wrong"
            fails.append(Fail(f"units:{fmt}:{recipe['entry']}:distances-not-in-angstrom:{how}", f"unit {unit}: d({i},{j}) = {got[i, j]:.6f} A read, {want[i, j]:.6f} A physical (ratio {ratio:.5f}; units per A = {PHYS[unit]:.5f})"))
            break
    return fails


def classify_units(recipe):
    labels = ["unit=" + recipe["unit"], "fmt=" + recipe["fmt"], "entry=" + recipe["entry"]]
    cs = recipe["mol"]["coords"]
    distinct = len({tuple(c) for c in cs}) >= 2
    return distinct and PHYS[recipe["unit"]] != 1.0, labels


def strat_units(tier):
    def finite(r):
        r = dict(r)
        r["coords"] = [[float(np.float32(max(-40.0, min(40.0, x)))) if x == x and not math.isinf(x) else 1.5 for x in c] for c in r["coords"]]
        r["atoms"] = [dict(a, el=a["el"] if a["el"] else 6, atype=1) for a in r["atoms"]]
        return r

    molr = chem.molecule_recipe(max_atoms=10, max_bonds=0, full=False, special_coords=False, attribs=False, mol2_safe=True, min_atoms=2).map(finite)
    return st.fixed_dictionaries({"unit": st.sampled_from(sorted(PHYS)), "fmt": st.sampled_from(["xyz", "mol2"]), "entry": st.sampled_from(["one", "all", "ens"]), "mol": molr})


def check_big(r) -> list[Fail]:
    """xyz texts beyond the 1 MiB / 4 MiB marks: many frames of a bundled molecule"""
    import molli as ml
    from vf.core import exc_sig, tally

    m = ml.Molecule.load_mol2(getattr(ml.files, r["file"]))
    nc = r["n_conf"]
    coords = np.array([np.asarray(m.coords) + 0.001 * k for k in range(nc)])
    ens = ml.ConformerEnsemble(m, n_conformers=nc, coords=coords)
    text = ens.dumps_xyz()
    tally(labels={"text_MiB": round(len(text) / 2**20, 2)})
    try:
        back = ml.ConformerEnsemble.loads_xyz(text)
        frames = ml.CartesianGeometry.loads_all_xyz(text)
    except Exception as e:
        return [Fail(f"big:roundtrip-raises:{exc_sig(e) or type(e).__name__}", f"{len(text)} characters, {nc} frames: {e!r}"[:300])]
    if back.n_conformers != nc or len(frames) != nc:
        return [Fail("big:frame-count-differs", f"{nc} -> {back.n_conformers} / {len(frames)}")]
    fails = []
    if not np.allclose(back.coords, coords, atol=6e-7, rtol=0) or not np.allclose(np.array([f.coords for f in frames]), coords, atol=6e-7, rtol=0):
        fails.append(Fail("big:coordinates-differ", f"{nc} frames"))
    if any([int(a.element) for a in f.atoms] != [int(a.element) for a in m.atoms] for f in (frames[0], frames[nc // 2], frames[-1])):
        fails.append(Fail("big:elements-differ", ""))
    return fails


def enum_big(tier, shard, nshards):
    cases = [{"file": "dendrobine_mol2", "n_conf": 620}] + ([{"file": "dendrobine_mol2", "n_conf": 2200}] if tier != "quick" else [])
    for i, c in enumerate(cases):
        if i % nshards == shard:
            yield c


LEGS = [
    Leg("multi", check_multi, classify_multi, strategy=strat_multi, n={"quick": 800, "thorough": 12000}, shards={"quick": 16, "thorough": 32},
        rule="2-4 DIFFERENT generated geometries written one after another into one xyz text (about half of the consecutive pairs have the same atom count but other elements / order), read through loads_all_xyz / load_all_xyz(stream) / yield_from_xyz for three classes; "
             "non-trivial = two consecutive frames of equal size and different elements"),
    Leg("big", check_big, lambda r: (True, [f"n_frames={r['n_conf']}"]), enumerate=enum_big, shards={"quick": 1, "thorough": 2},
        rule="xyz texts beyond 1 MiB (thorough: 4 MiB): 620-2200 frames of a bundled molecule; frame count, every coordinate, sampled elements"),
    Leg("rt", check_rt, classify_rt, strategy=strat_rt, n={"quick": 3000, "thorough": 45000}, shards={"quick": 16, "thorough": 32},
        rule="generated CartesianGeometry / Structure / Molecule (0-12/30 atoms, all elements, dummy atoms, |x| up to 1e7, NaN, inf, -0.0) and ensembles of 1-5 frames; "
             "dumps_xyz -> loads / load(stream) / loads_all / load_all(stream) / ConformerEnsemble.loads_xyz; non-trivial = >=2 atoms with distinct coordinates"),
    Leg("units", check_units, classify_units, strategy=strat_units, n={"quick": 1600, "thorough": 24000}, shards={"quick": 16, "thorough": 32},
        rule="every DistanceUnit member (A, Angstrom, Bohr, au, fm, pm, nm) x {xyz, mol2} x {single, load_all, ensemble loader}; geometry of 2-10 atoms expressed in the unit with the physical factor; "
             "pairwise distances compared with the Angstrom original; non-trivial = unit != Angstrom and >=2 distinct points"),
]
