"""C12 — joining fragments at attachment points builds exactly the intended molecule.

Fragments are constructed (not filtered): heavy atoms on a jittered lattice (min separation ~0.9 A),
a random tree plus optional ring closures, one attachment point bonded once to any atom, unique
labels, random rigid pose.  Oracle per join: atom / bond transfer field by field, new bond with the
requested type, each fragment fitted by a PROPER rigid motion (own Kabsch), bond length, bond
direction (frame-free distance test from every atom of A, and of B), charge / multiplicity,
bit-identical result under two np.random states, sources untouched and sharing nothing.
Legs: join (single joins incl. exactly parallel / antiparallel attachment vectors), iter
(cores with 2-4 attachment points joined as `molli combine` does, index shift ap_i - i).
"""
from __future__ import annotations

import math

import os

import numpy as np
from hypothesis import strategies as st

from vf import chem
from vf.core import Fail, Leg, HarnessError, tally
from vf.props.c06 import containers

LEVEL = "exploration"
ASSUMPTIONS = [
    "attachment atoms have exactly one bond (join asserts it)",
    "with optimize_rotation the rotamer about the new bond is not prescribed: only rigidity, length and direction are asserted",
    "B's former attachment direction pointing back at A's anchor is asserted because the anchored mechanism is 'rotation v2 -> -v1'",
    "partial charges of the product are not asserted",
    "scripts/combine.py imports openbabel at load time (absent): its loop is restated in the harness for the stepwise oracle AND the real _ml_assemble is imported behind a placeholder `openbabel` module (the assembly loop never uses it) for a differential comparison",
]
LATTICE = [(x, y, z) for x in range(3) for y in range(3) for z in range(3)]
ELS = [6, 7, 8, 16, 15, 9, 17, 14, 5, 35]


def _proper_R(seed):
    rng = np.random.default_rng(seed)
    q, r = np.linalg.qr(rng.normal(size=(3, 3)))
    q = q @ np.diag(np.sign(np.diag(r)))
    if np.linalg.det(q) < 0:
        q[:, 0] = -q[:, 0]
    return q


def build_fragment(f, cls, tag, exact_dir=None):
    """f: {n, perm, jitter, parents, rings, els, btypes, aps:[(anchor, dir)], charge, mult, pose}"""
    import molli as ml
    from molli.chem import Atom, AtomType, BondType

    n = f["n"]
    pts = [LATTICE[p % 27] for p in f["perm"][:n]]
    coords = np.array(pts, dtype=float) * 1.5 + np.array(f["jitter"][: 3 * n], dtype=float).reshape((n, 3))
    # per-atom formal charges / spins are annotations of their own: they need not add up to the fragment's declared charge / multiplicity
    fcs = f.get("fcs") or [0]
    atoms = [Atom(element=ELS[e % len(ELS)], label=f"{tag}{i}", attrib={"tag": [tag, i]}, formal_charge=fcs[i % len(fcs)], formal_spin=(1 if fcs[(i + 1) % len(fcs)] == 2 else 0)) for i, e in enumerate(f["els"][:n])]
    aps = []
    for k, (anchor, d) in enumerate(f["aps"]):
        anchor %= n
        dv = np.array(d, dtype=float)
        if np.linalg.norm(dv) < 1e-3:
            dv = np.array([0.3, -0.5, 0.8])
        dv = dv / np.linalg.norm(dv) * f.get("ap_len", 1.1)     # the two fragments' attachment bonds need not be equally long
        if exact_dir is not None:
            dv = np.array(exact_dir, dtype=float)
        atoms.append(Atom(element=0, atype=AtomType.AttachmentPoint, label=f"{tag}AP{k}"))
        coords = np.vstack([coords, coords[anchor] + dv])
        aps.append((n + k, anchor))
    if exact_dir is None:
        R = _proper_R(f["pose"])
        t = np.random.default_rng(f["pose"]).normal(size=3) * 4
        coords = coords @ R + t
    else:
        coords = np.round(coords * 4) / 4 + np.array([1.0, -2.0, 3.0])     # exact binary fractions, integer shift
        for (ai, anchor) in aps:
            coords[ai] = coords[anchor] + np.array(exact_dir, dtype=float)
    K = len(aps)
    ap_first = bool(f.get("ap_first"))
    if f.get("ap_plain") and K >= 2:
        # the first attachment atom is an ordinary terminal hydrogen (join asks for a monovalent atom, not for a type); a TYPED attachment
        # point exists elsewhere in the fragment
        atoms[n].atype = AtomType.Regular
        atoms[n].element = 1
    if ap_first:
        # the attachment atoms come FIRST in the atom list (index 0, 1, ...), the body after them
        order = list(range(n, n + K)) + list(range(n))
        atoms = [atoms[i] for i in order]
        coords = coords[order]
        ix = lambda i: i + K if i < n else i - n       # noqa: E731
    else:
        ix = lambda i: i                               # noqa: E731
    kw = {}
    if issubclass(cls, ml.Molecule):
        kw["atomic_charges"] = np.linspace(-0.3, 0.3, len(atoms))
    m = cls(atoms, name=f"frag{tag}", charge=f["charge"], mult=f["mult"], coords=coords, **kw)
    for i in range(1, n):
        m.connect(ix(i), ix(f["parents"][i] % i), btype=BondType([1, 2, 3, 20][f["btypes"][i] % 4]), attrib={"of": tag})
    for (a, b) in f["rings"]:
        a, b = a % n, b % n
        if a != b and m.lookup_bond(ix(a), ix(b)) is None:
            m.connect(ix(a), ix(b))
    for k, (ai, anchor) in enumerate(aps):
        # the bond to the attachment point may be of any type (e.g. a drawn "=X"), and either way round
        bt = BondType([1, 1, 2, 3, 20][(f.get("ap_btype", 0) + k) % 5])
        if (f.get("ap_btype", 0) + k) % 2:
            m.connect(ix(ai), ix(anchor), btype=bt)
        else:
            m.connect(ix(anchor), ix(ai), btype=bt)
    for j in range(f.get("loose", 0)):
        # atoms that belong to the fragment without being bonded to it (a counter-ion, explicit solvent, a dummy atom)
        from molli.chem import Element
        m.add_atom(Atom(element=[17, 11, 0][j % 3], label=f"{tag}X{j}", atype=AtomType.Dummy if j % 3 == 2 else AtomType.Regular), coords.mean(axis=0) + np.array([2.5 + j, -1.5, 0.75 * (j + 1)]))
    return m, [ix(ai) for ai, _ in aps]


_M32 = []


def _mol32():
    """a Molecule subclass declared through the public __init_subclass__ hook with single-precision coordinates"""
    if not _M32:
        import molli as ml

        class Molecule32(ml.Molecule, coords_dtype=np.float32):
            pass

        _M32.append(Molecule32)
    return _M32[0]


def kabsch_fit(P, Q):
    """best proper and best improper rigid fit residual (rmsd) of P onto Q"""
    P, Q = np.asarray(P, float), np.asarray(Q, float)
    Pc, Qc = P - P.mean(0), Q - Q.mean(0)
    U, S, Vt = np.linalg.svd(Pc.T @ Qc)
    d = np.sign(np.linalg.det(U @ Vt)) or 1.0
    out = []
    for dd in (d, -d):
        R = U @ np.diag([1.0, 1.0, dd]) @ Vt
        out.append(float(np.sqrt(np.mean(np.sum((Pc @ R - Qc) ** 2, axis=1)))))
    return out[0], out[1]   # proper, improper


def atom_fields(a):
    return (int(a.element), a.isotope, a.label, int(a.atype), int(a.stereo), int(a.geom), a.formal_charge, a.formal_spin, chem.norm_attr(a.attrib))


def check_one_join(A, B, apA, apB, kw, cls, where, fails, determinism=True, named=0):
    """performs the join and checks everything; returns the product (or None)"""
    import molli as ml
    from molli.chem import BondType, BondStereo, Element

    # numerical tolerance: 1e-6 for double-precision classes.  For a single-precision class the general-position formula
    # R = I + K + K^2/(1+c) amplifies the 1e-7 rounding of the inputs by 1/(1+c): the geometric clauses are asserted with 2e-3 x
    # magnitude, and not at all where the two attachment vectors are nearly (but not exactly) antiparallel (1+c < 1e-2)
    f32 = np.asarray(A.coords).dtype == np.float32 or np.asarray(B.coords).dtype == np.float32 or getattr(cls, "_coords_dtype", None) == np.float32
    TOL = 1e-6 if not f32 else 2e-3 * max(1.0, float(np.nanmax(np.abs(A.coords))) if A.n_atoms else 1.0, float(np.nanmax(np.abs(B.coords))) if B.n_atoms else 1.0)
    a1, a2 = A.atoms[apA], B.atoms[apB]
    a1r = next(A.connected_atoms(a1))
    a2r = next(B.connected_atoms(a2))
    snapA, snapB = chem.snapshot(A), chem.snapshot(B)
    par0 = {"A": ([x.parent for x in A.atoms], [b.parent for b in A.bonds]), "B": ([x.parent for x in B.atoms], [b.parent for b in B.bonds])}
    np.random.seed(12345)
    # the attachment points are named as Atom objects, as integer indices or by their (unique) labels: AtomLike
    n1, n2 = [(a1, a2), (apA, apB), (a1.label, a2.label)][named]
    try:
        P = cls.join(A, B, n1, n2, **kw)
    except Exception as e:
        from vf.core import exc_sig

        fails.append(Fail(f"join-raises:{exc_sig(e) or type(e).__name__}", f"{where}: {e!r}"[:300]))
        return None
    keepA = [x for x in A.atoms if x is not a1]
    keepB = [x for x in B.atoms if x is not a2]
    src_atoms = keepA + keepB
    nA = len(keepA)
    # ---- atoms
    if P.n_atoms != len(src_atoms):
        fails.append(Fail("atom-count-wrong", f"{where}: {P.n_atoms} vs {len(src_atoms)}"))
        return None
    for i, (s, p) in enumerate(zip(src_atoms, P.atoms)):
        if any(p is x for x in A.atoms) or any(p is x for x in B.atoms):
            fails.append(Fail("product-reuses-source-atom-object", f"{where}: atom {i}"))
            return None
        if atom_fields(s) != atom_fields(p):
            fails.append(Fail("atom-fields-differ", f"{where}: atom {i}: {atom_fields(s)} -> {atom_fields(p)}"))
            return None
        if p.parent is not P or p.idx != i:
            fails.append(Fail("product-atom-parent-or-index-wrong", f"{where}: atom {i}"))
            return None
    # ---- bonds
    pos = {id(x): i for i, x in enumerate(src_atoms)}
    exp = []
    for b in list(A.bonds) + list(B.bonds):
        if a1 in b or a2 in b:
            continue
        exp.append((pos[id(b.a1)], pos[id(b.a2)], b.label, int(b.btype), int(b.stereo), b.f_order, chem.norm_attr(b.attrib)))
    newb = (pos[id(a1r)], pos[id(a2r)], None, int(kw.get("btype", BondType.Single)), int(kw.get("bstereo", BondStereo.Unknown)), float(kw.get("bforder", 1.0)), chem.norm_attr({}))
    pidx = {id(x): i for i, x in enumerate(P.atoms)}
    got = [(pidx.get(id(b.a1), -1), pidx.get(id(b.a2), -1), b.label, int(b.btype), int(b.stereo), b.f_order, chem.norm_attr(b.attrib)) for b in P.bonds]
    key = lambda t: (min(t[0], t[1]), max(t[0], t[1]), repr(t[2:]))
    if sorted(map(key, got)) != sorted(map(key, exp + [newb])):
        ge, ee = sorted(map(key, got)), sorted(map(key, exp + [newb]))
        extra = [g for g in ge if g not in ee][:2]
        miss = [e_ for e_ in ee if e_ not in ge][:2]
        what = "new-bond-wrong-or-missing" if key(newb) in miss or any(g[:2] == key(newb)[:2] for g in extra) else "bond-transfer-wrong"
        fails.append(Fail(what, f"{where}: unexpected {extra} missing {miss}"))
        return None
    if any(b.parent is not P for b in P.bonds):
        fails.append(Fail("product-bond-parent-wrong", where))
    # ---- geometry
    if f32:
        w1 = np.asarray(A.coords[A.atoms.index(a1)], dtype=float) - np.asarray(A.coords[A.atoms.index(a1r)], dtype=float)
        w2 = np.asarray(B.coords[B.atoms.index(a2)], dtype=float) - np.asarray(B.coords[B.atoms.index(a2r)], dtype=float)
        cc_ = float(np.dot(w2 / np.linalg.norm(w2), -w1 / np.linalg.norm(w1)))
        if 1e-6 < 1 + cc_ < 1e-2:
            return P
    PA, PB = P.coords[:nA], P.coords[nA:]
    SA = np.array([A.coords[A.atoms.index(x)] for x in keepA])
    SB = np.array([B.coords[B.atoms.index(x)] for x in keepB])
    for nm, S, Q in (("A", SA, PA), ("B", SB, PB)):
        if not np.all(np.isfinite(Q)):
            fails.append(Fail(f"fragment-{nm}-coordinates-not-finite", where))
            return P
        if len(S) >= 2:
            prop, improp = kabsch_fit(S, Q)
            if prop > TOL:
                if improp <= TOL and len(S) >= 4:
                    fails.append(Fail(f"fragment-{nm}-mirrored", f"{where}: proper fit rmsd {prop:.3e}, improper {improp:.3e}"))
                else:
                    fails.append(Fail(f"fragment-{nm}-distorted", f"{where}: best proper rigid fit rmsd {prop:.3e}"))
                return P
    ia, ib = pos[id(a1r)], pos[id(a2r)]
    L_exp = kw.get("dist") or ((Element(int(a1r.element)).cov_radius_1 or Element.C.cov_radius_1) + (Element(int(a2r.element)).cov_radius_1 or Element.C.cov_radius_1)) or 1.5
    L = float(np.linalg.norm(P.coords[ia] - P.coords[ib]))
    if abs(L - L_exp) > TOL:
        fails.append(Fail("new-bond-length-wrong", f"{where}: {L:.6f} vs requested/expected {L_exp:.6f}"))
        return P
    # direction, frame-free: A's atoms see B's anchor where A's attachment direction points; and vice versa
    for nm, S, Q, src, anchor, ap, other in (("A", SA, PA, A, a1r, a1, P.coords[ib]), ("B", SB, PB, B, a2r, a2, P.coords[ia])):
        c_anchor = src.coords[src.atoms.index(anchor)]
        v = src.coords[src.atoms.index(ap)] - c_anchor
        pt = c_anchor + L_exp * v / np.linalg.norm(v)
        d_src = np.linalg.norm(S - pt, axis=1)
        d_prod = np.linalg.norm(Q - other, axis=1)
        if np.max(np.abs(d_src - d_prod)) > TOL:
            fails.append(Fail(f"new-bond-not-along-{nm}s-attachment-direction", f"{where}: max distance mismatch {np.max(np.abs(d_src - d_prod)):.3e}"))
            return P
        if len(S) >= 3:
            done = False
            for i in range(len(S)):
                for j in range(i + 1, len(S)):
                    for k in range(j + 1, len(S)):
                        v0 = np.linalg.det(np.array([S[i] - pt, S[j] - pt, S[k] - pt]))
                        if abs(v0) > 1e-3:
                            v1 = np.linalg.det(np.array([Q[i] - other, Q[j] - other, Q[k] - other]))
                            if np.sign(v0) != np.sign(v1):
                                fails.append(Fail(f"new-bond-on-the-mirror-side-of-{nm}", where))
                                return P
                            done = True
                            break
                    if done:
                        break
                if done:
                    break
    # ---- charge / mult / name
    q_exp = kw["charge"] if kw.get("charge") is not None else A.charge + B.charge
    m_exp = kw["mult"] if kw.get("mult") is not None else A.mult + B.mult - 1
    if P.charge != q_exp:
        fails.append(Fail("charge-wrong" + (":override-0-ignored" if kw.get("charge") == 0 else ""), f"{where}: {P.charge} vs {q_exp} (A {A.charge}, B {B.charge}, override {kw.get('charge')})"))
    if P.mult != m_exp:
        fails.append(Fail("mult-wrong", f"{where}: {P.mult} vs {m_exp}"))
    if kw.get("name") is not None and P.name != kw["name"]:
        fails.append(Fail("name-override-ignored", f"{where}: {P.name!r}"))
    # ---- sources untouched, nothing shared
    for nm, src, snap in (("A", A, snapA), ("B", B, snapB)):
        d = chem.snap_diff(snap, chem.snapshot(src))
        if d:
            fails.append(Fail(f"source-{nm}-altered", f"{where}: {d}"))
        if any(x.parent is not p_ for x, p_ in zip(src.atoms, par0[nm][0])) or any(b.parent is not p_ for b, p_ in zip(src.bonds, par0[nm][1])):
            fails.append(Fail(f"source-{nm}-parents-changed", where))
    shared = (set(containers(A)) | set(containers(B))) & set(containers(P))
    if shared:
        fails.append(Fail("product-shares-mutable-state-with-source", where))
    if np.shares_memory(P.coords, A.coords) or np.shares_memory(P.coords, B.coords):
        fails.append(Fail("product-shares-coordinate-memory", where))
    # ---- hidden state
    if determinism:
        np.random.seed(777)
        P2 = cls.join(A, B, n1, n2, **kw)
        if not np.array_equal(P.coords, P2.coords, equal_nan=True):
            fails.append(Fail("result-depends-on-hidden-state", f"{where}: coordinates differ between two calls with different np.random state (max {np.nanmax(np.abs(P.coords - P2.coords)):.3e})"))
    return P


def _kw(r):
    from molli.chem import BondType, BondStereo

    kw = {}
    if r.get("dist") is not None:
        kw["dist"] = r["dist"]
    if r.get("opt"):
        kw["optimize_rotation"] = True
    for k in ("name", "charge", "mult"):
        if r.get(k) is not None:
            kw[k] = r[k]
    if r.get("btype") is not None:
        kw["btype"] = BondType(r["btype"])
        kw["bstereo"] = BondStereo(r.get("bstereo", 0))
        kw["bforder"] = r.get("bforder", 1.0)
    return kw


def check_join(r) -> list[Fail]:
    import molli as ml

    cls = ml.Molecule if r["cls"] == "Molecule" else _mol32() if r["cls"] == "Molecule32" else ml.Structure
    deg = r.get("degenerate")
    if deg:
        e = [0.5, 0.25, 1.0] if deg != "axis" else [0.0, 0.0, 1.0]
        A, apsA = build_fragment(dict(r["A"], aps=r["A"]["aps"][:1]), cls, "a", exact_dir=e)
        # rotation maps v2 -> -v1: v2 == v1 exactly is the antiparallel (c = -1) case, v2 == -v1 the identity case
        eb = e if deg in ("antiparallel", "axis") else [-x for x in e]
        B, apsB = build_fragment(dict(r["B"], aps=r["B"]["aps"][:1]), cls, "b", exact_dir=eb)
    else:
        # A may carry a second attachment point (left over in the product), its attachment atoms may come first in the atom list
        # (index 0 is then an attachment atom), and the one that is used may be an ordinary terminal H while the other one is typed
        A, apsA = build_fragment(dict(r["A"], aps=r["A"]["aps"][:2], ap_first=r.get("ap_first"), ap_plain=r.get("ap_plain"), loose=r.get("loose_a", 0)), cls, "a")
        B, apsB = build_fragment(dict(r["B"], aps=r["B"]["aps"][:2], ap_first=r.get("ap_first_b"), loose=r.get("loose_b", 0)), cls, "b")      # (B may be a linker with a second, still open attachment point; it may come with non-bonded atoms)
    fails: list[Fail] = []
    wrapped = None
    if r.get("wrapped"):
        # some atoms of A (the attachment point among them) were handed, uncopied, to another container before the join
        # (e.g. ml.Promolecule(A.attachment_points).formula): that re-parents the Atom objects, A itself is unchanged
        import gc
        wrapped = ml.Promolecule([A.atoms[apsA[0]]] + [A.atoms[i] for i in range(min(2, A.n_atoms - 1))])
        if r["wrapped"] == 2:
            wrapped = None
            gc.collect()      # ... and that container is gone again: the atoms' parent reference is dead
    check_one_join(A, B, apsA[0], apsB[0], _kw(r), cls, f"join[{deg or 'general'}]" + ["", " (A's atoms also sit in a live foreign container)", " (A's atoms carry a dead parent reference)"][r.get("wrapped", 0)]
                   + ["", " APs named by index", " APs named by label"][r.get("named", 0)], fails, named=r.get("named", 0))
    if not fails and r.get("again") and not deg:
        # the same fragment objects, edited in place by their owner, joined again: the product is built from their current state
        A.translate([0.4, -1.1, 2.3])
        B.coords = np.asarray(B.coords) @ _proper_R(r["A"]["pose"] + 1)
        A.atoms[0].label = "edited"
        if A.n_bonds:
            A.bonds[0].attrib["edited"] = True
        A.charge = A.charge + 1
        # ... and A loses one of its atoms (not the attachment point, not its anchor): every later atom moves up one place
        ap_atom = A.atoms[apsA[0]]
        anchor_ = next(A.connected_atoms(ap_atom))
        victims = [x for x in A.atoms if x is not ap_atom and x is not anchor_ and not x.is_attachment_point]
        apA2 = apsA[0]
        if victims and r.get("again_del", True):
            A.del_atom(victims[0])
            apA2 = A.atoms.index(ap_atom)
        n0 = len(fails)
        check_one_join(A, B, apA2, apsB[0], _kw(r), cls, "join[again after in-place edits of A and B]", fails)
        for f_ in fails[n0:]:
            f_.sig += ":second-join-after-in-place-edit"
    return fails


def classify_join(r):
    labels = ["cls=" + r["cls"], "degenerate=" + str(r.get("degenerate")), "opt=" + str(bool(r.get("opt"))), "dist=" + ("given" if r.get("dist") is not None else "default")]
    if r.get("charge") == 0:
        labels.append("charge_override_0")
    elif r.get("charge") is not None:
        labels.append("charge_override")
    return r["A"]["n"] >= 3 and r["B"]["n"] >= 3, labels


def _frag(max_n, n_aps=(1, 1)):
    return st.fixed_dictionaries({
        "n": st.integers(1, max_n),
        "perm": st.permutations(list(range(27))),
        "jitter": st.lists(st.floats(-0.3, 0.3), min_size=30, max_size=30),
        "parents": st.lists(st.integers(0, 100), min_size=11, max_size=11),
        "btypes": st.lists(st.integers(0, 3), min_size=11, max_size=11),
        "rings": st.lists(st.tuples(st.integers(0, 9), st.integers(0, 9)).map(list), max_size=2),
        "els": st.lists(st.integers(0, 9), min_size=10, max_size=10),
        "aps": st.lists(st.tuples(st.integers(0, 9), st.lists(st.floats(-1, 1), min_size=3, max_size=3)).map(list), min_size=n_aps[0], max_size=n_aps[1]),
        "charge": st.integers(-2, 2), "mult": st.integers(1, 4), "pose": st.integers(0, 10**6), "ap_btype": st.integers(0, 9),
        "ap_len": st.sampled_from([1.1, 1.1, 0.8, 1.09, 1.54, 2.0]),
        "fcs": st.one_of(st.just([0]), st.lists(st.sampled_from([0, 0, 1, -1, 2]), min_size=1, max_size=4)),
    })


def strat_join(tier):
    return st.fixed_dictionaries({
        "cls": st.sampled_from(["Molecule", "Molecule", "Structure", "Molecule32"]), "A": _frag(10, (1, 2)), "B": _frag(10, (1, 2)),
        "ap_first": st.booleans(), "ap_first_b": st.booleans(), "ap_plain": st.booleans(), "loose_a": st.sampled_from([0, 0, 0, 1]), "loose_b": st.sampled_from([0, 0, 1, 2, 3]),
        "dist": st.one_of(st.none(), st.floats(0.8, 3.0)), "opt": st.booleans(),
        "charge": st.one_of(st.none(), st.none(), st.just(0), st.integers(-3, 3)), "mult": st.one_of(st.none(), st.integers(1, 5)),
        "name": st.one_of(st.none(), st.just("product")),
        "btype": st.one_of(st.none(), st.sampled_from([1, 2, 3, 20, 99])), "bstereo": st.sampled_from([0, 10, 11]), "bforder": st.sampled_from([1.0, 1.5, 2.0]),
        "degenerate": st.sampled_from([None, None, None, "parallel", "antiparallel", "axis"]), "again": st.booleans(), "wrapped": st.sampled_from([0, 0, 1, 2]), "named": st.sampled_from([0, 0, 1, 2]),
    })


# ---------------------------------------------------------------- iterated joins (molli combine)
def _real_assemble():
    """molli/scripts/combine.py:_ml_assemble itself.  The module imports openbabel at load time (absent here) although
    the assembly loop never touches it: a placeholder module is installed just for the import."""
    import sys
    import types

    if "openbabel" not in sys.modules:
        ob = types.ModuleType("openbabel")
        ob.openbabel = types.ModuleType("openbabel.openbabel")
        ob.pybel = types.ModuleType("openbabel.pybel")
        sys.modules["openbabel"], sys.modules["openbabel.openbabel"], sys.modules["openbabel.pybel"] = ob, ob.openbabel, ob.pybel
    from molli.scripts import combine

    fn = combine._ml_assemble
    return fn


def check_iter(r) -> list[Fail]:
    import molli as ml

    fails: list[Fail] = []
    core, aps = build_fragment(r["core"], ml.Molecule, "c")
    # `molli combine -a ...` may select a SUBSET of the core's attachment points
    sel = [a for k, a in enumerate(sorted(aps)) if (r.get("ap_subset", 255) >> k) & 1] or sorted(aps)
    subs = [build_fragment(dict(s, aps=s["aps"][:1]), ml.Molecule, f"s{k}_")[0] for k, s in enumerate(r["subs"][: len(sel)])]
    aps = sel[: len(subs)]
    bad = r.get("bad_sub")
    if bad is not None:
        # one substituent of the combination is defective: its single attachment point carries TWO bonds (it still counts as one
        # attachment point, so `molli combine` accepts the file) - join refuses it.  A combination that cannot be assembled yields
        # no product: never a half-assembled molecule under the product's name
        from molli.chem import Bond
        bad %= len(subs)
        sb = subs[bad]
        apa = sb.attachment_points[0]
        others = [a for a in sb.atoms if a is not apa and not any(apa in b and a in b for b in sb.bonds)]
        if not others:
            bad = None
        else:
            sb.append_bond(Bond(apa, others[0]))
            try:
                ml.Molecule.join(ml.Molecule(core), sb, sorted(aps)[0], sb.atoms.index(apa), optimize_rotation=True)
                return []      # (a join that copes with such an attachment point is not what this case is about)
            except Exception:
                pass
            try:
                fn = _real_assemble()
                call = fn(core, tuple(sorted(aps)), [tuple(subs)], hadd=False, obopt=None)
                results = call[0](*call[1], **call[2]) if isinstance(call, tuple) else call
            except Exception:
                tally(units=0, nontrivial_keys=[])
                return []
            if results:
                (pname, prod), = list(results.items())[:1]
                return [Fail("combine:half-assembled-molecule-returned-as-the-product", f"substituent {bad} cannot be joined, yet {pname!r} is returned with {prod.n_atoms} atoms, {sum(1 for a in prod.atoms if a.is_attachment_point)} attachment point(s) left")]
            tally(units=0, nontrivial_keys=[])
            return []
    core_snapshot = chem.snapshot(core)
    core_aps = tuple(sorted(aps))            # indices of the selected attachment points in the core, ascending
    ap_labels = [core.atoms[i].label for i in core_aps]
    deriv = ml.Molecule(core)
    for i, (ap_i, sub) in enumerate(zip(core_aps, subs)):
        # restated from molli/scripts/combine.py:_ml_assemble
        idx = ap_i - i
        if deriv.atoms[idx].label != ap_labels[i] or not deriv.atoms[idx].is_attachment_point:
            fails.append(Fail("iterated:index-shift-points-at-wrong-atom", f"step {i}: deriv.atoms[{idx}] is {deriv.atoms[idx].label!r}, expected attachment point {ap_labels[i]!r}"))
            return fails
        apB = sub.atoms.index(sub.attachment_points[0])
        P = check_one_join(deriv, sub, idx, apB, {"optimize_rotation": True}, ml.Molecule, f"iterated step {i}", fails, determinism=(i == 0))
        if P is None or fails:
            return fails
        deriv = P
    # the attachment points that were NOT selected are exactly the ones left in the product
    left = sorted(a.label for a in deriv.atoms if a.is_attachment_point)
    want_left = sorted(core.atoms[i].label for i in range(core.n_atoms) if core.atoms[i].is_attachment_point and i not in core_aps)
    if left != want_left:
        fails.append(Fail("iterated:wrong-attachment-points-left-over", f"left {left}, expected {want_left}"))
    # ---- differential: the real assembly routine of `molli combine` on the same inputs
    if not fails:
        try:
            fn = _real_assemble()
            call = fn(core, core_aps, [tuple(subs)], hadd=False, obopt=None)
            results = call[0](*call[1], **call[2]) if isinstance(call, tuple) else call
        except Exception as e:
            from vf.core import exc_sig

            s_ = exc_sig(e)
            if s_ is None:
                raise
            return [Fail(f"combine-assemble-raises:{s_}", repr(e)[:300])]
        if len(results) != 1:
            fails.append(Fail("combine:number-of-products", f"{len(results)}"))
        else:
            (pname, prod), = results.items()
            exp_name = "_".join([core.name] + [s_.name for s_ in subs])
            if pname != exp_name or prod.name != exp_name:
                fails.append(Fail("combine:product-name", f"{pname!r} / {prod.name!r} vs {exp_name!r}"))
            d = chem.snap_diff(chem.snapshot(deriv), chem.snapshot(prod), skip=("name",))
            if d:
                fails.append(Fail("combine:product-differs-from-iterated-join:" + d.split(":")[0].split("[")[0], f"core APs {core_aps} of {sorted(i for i in range(core.n_atoms) if core.atoms[i].is_attachment_point)}: {d}"))
        d = chem.snap_diff(core_snapshot, chem.snapshot(core))
        if d:
            fails.append(Fail("combine:core-altered", d))
    tally(units=max(0, len(subs) - 1), nontrivial_keys=[])
    return fails


def classify_iter(r):
    naps = len(r["core"]["aps"])
    nsel = sum(1 for k in range(naps) if (r.get("ap_subset", 255) >> k) & 1) or naps
    n = min(nsel, len(r["subs"]))
    return n >= 2 and r["core"]["n"] >= 3, [f"n_joins={n}", f"defective_substituent={'none' if r.get('bad_sub') is None else 'yes'}", "proper_subset_of_attachment_points" if nsel < naps else "all_attachment_points"]


def strat_iter(tier):
    return st.fixed_dictionaries({"core": _frag(10, (2, 4)), "subs": st.lists(_frag(6), min_size=2, max_size=4), "ap_subset": st.sampled_from([255, 255, 3, 5, 6, 9, 10, 12, 7, 14]),
                                  "bad_sub": st.sampled_from([None, None, None, None, 0, 1, 2, 3])})


# ---------------------------------------------------------------- the command itself: `molli combine cores -s substituents -o out -m mode`
def check_cli(r) -> list[Fail]:
    """End to end through molli.scripts.combine.molli_main (in-process, placeholder openbabel module): a core library and a substituent
    library on disk, every mode.  Structural oracle per product, from the inputs alone: the atoms are those of the core and of the chosen
    substituents minus the attachment points, no attachment point is left, and the i-th attachment site of the core (atom order) carries
    the i-th substituent of the combination named in the product's key."""
    import contextlib
    import io
    import itertools
    import shutil
    import tempfile
    from collections import Counter
    import molli as ml

    _real_assemble()
    from molli.scripts import combine

    fails: list[Fail] = []
    core, aps = build_fragment(r["core"], ml.Molecule, "c")
    core.name = "core"
    aps = sorted(aps)
    # the LABELS of the attachment points need not follow the atom order (AP2 drawn before AP1)
    perm = r["ap_relabel"]
    for k, ai in enumerate(aps):
        core.atoms[ai].label = f"AP{perm[k % len(perm)] % 9}_{k if r.get('unique_ap_labels', True) else 0}"
    subs = []
    for k, sr in enumerate(r["subs"]):
        m_, _ = build_fragment(dict(sr, aps=sr["aps"][:1]), ml.Molecule, f"s{k}x")
        m_.name = f"s{k}"
        subs.append(m_)
    mode = r["mode"]
    n_aps = len(aps)
    if mode in ("permutns", "combns") and len(subs) < n_aps:
        return []
    d = tempfile.mkdtemp(prefix="c12cli", dir=os.environ.get("VF_SCRATCH") or None)
    try:
        cores_p, subs_p, out_p = (os.path.join(d, n_) for n_ in ("cores.mlib", "subs.mlib", "out.mlib"))
        import atexit
        for p_, objs in ((cores_p, [core]), (subs_p, subs)):
            lib = ml.MoleculeLibrary(p_, readonly=False, overwrite=True)
            atexit.unregister(lib._backend.flush)
            with lib.writing():
                for o in objs:
                    lib[o.name] = o
        try:
            with contextlib.redirect_stdout(io.StringIO()), contextlib.redirect_stderr(io.StringIO()):
                combine.molli_main([cores_p, "-s", subs_p, "-o", out_p, "-m", mode, "-sep", "+"])
        except BaseException as e:  # noqa (argparse exits with SystemExit)
            from vf.core import exc_sig
            s_ = exc_sig(e) if isinstance(e, Exception) else type(e).__name__
            if s_ is None:
                raise
            return [Fail(f"combine-cli-raises:{s_}", f"mode {mode}, {n_aps} attachment points, {len(subs)} substituents: {e!r}"[:300])]
        names = [s_.name for s_ in subs]
        gen = {"same": [(n_,) * n_aps for n_ in names], "permutns": itertools.permutations(names, n_aps),
               "combns": itertools.combinations(names, n_aps), "combns_repl": itertools.combinations_with_replacement(names, n_aps)}[mode]
        want = {"+".join(("core",) + tuple(c_)): tuple(c_) for c_ in gen}
        res = ml.MoleculeLibrary(out_p)
        atexit.unregister(res._backend.flush)
        with res.reading():
            got_keys = set(res.keys())
            if mode in ("same", "permutns") and got_keys != set(want):
                return [Fail("combine-cli:product-keys", f"mode {mode}: {sorted(got_keys ^ set(want))[:4]} differ")]
            if mode in ("combns", "combns_repl"):
                # (the order inside a combination follows the order in which the substituent library lists its keys: any)
                gk = sorted(tuple(sorted(k_.split("+")[1:])) for k_ in got_keys)
                wk = sorted(tuple(sorted(c_)) for c_ in want.values())
                if gk != wk:
                    return [Fail("combine-cli:product-keys", f"mode {mode}: combinations {gk[:4]}... vs {wk[:4]}...")]
            core_nb = []
            for ai in aps:
                (nb,) = [x for x in core.connected_atoms(core.atoms[ai])]
                core_nb.append(nb.label)
            sub_anchor = {}
            for s_ in subs:
                ap_ = s_.attachment_points[0]
                (nb,) = [x for x in s_.connected_atoms(ap_)]
                sub_anchor[s_.name] = nb.label
            core_labels = Counter(a.label for a in core.atoms if not a.is_attachment_point)
            for key in sorted(got_keys):
                combo = tuple(key.split("+")[1:])
                if len(combo) != n_aps or any(c_ not in sub_anchor for c_ in combo):
                    fails.append(Fail("combine-cli:product-keys", f"{key!r}"))
                    break
                P = res[key]
                exp_labels = Counter(core_labels)
                for c_ in combo:
                    exp_labels.update(a.label for a in subs[names.index(c_)].atoms if not a.is_attachment_point)
                got_labels = Counter(a.label for a in P.atoms)
                if got_labels != exp_labels:
                    miss, extra = sorted((exp_labels - got_labels).elements())[:4], sorted((got_labels - exp_labels).elements())[:4]
                    fails.append(Fail("combine-cli:product-atoms-wrong", f"{key!r} (mode {mode}; attachment point labels {[core.atoms[i].label for i in aps]}): missing {miss}, unexpected {extra}"))
                    break
                exp_links = Counter((core_nb[i], sub_anchor[c_]) for i, c_ in enumerate(combo))
                got_links = Counter()
                for b in P.bonds:
                    l1, l2 = b.a1.label, b.a2.label
                    if l1.startswith("c") and l2.startswith("s"):
                        got_links[(l1, l2)] += 1
                    elif l2.startswith("c") and l1.startswith("s"):
                        got_links[(l2, l1)] += 1
                if got_links != exp_links:
                    fails.append(Fail("combine-cli:substituent-on-the-wrong-site", f"{key!r} (mode {mode}; attachment point labels {[core.atoms[i].label for i in aps]}): links {dict(got_links)}, expected {dict(exp_links)}"))
                    break
                if not np.all(np.isfinite(P.coords)):
                    fails.append(Fail("combine-cli:non-finite-coordinates", key))
                    break
            tally(units=max(0, len(got_keys) - 1), nontrivial_keys=[])
    finally:
        shutil.rmtree(d, ignore_errors=True)
    return fails


def strat_cli(tier):
    return st.fixed_dictionaries({"core": _frag(6, (2, 3)), "subs": st.lists(_frag(3), min_size=2, max_size=3), "mode": st.sampled_from(["permutns", "permutns", "same", "combns", "combns_repl"]),
                                  "ap_relabel": st.permutations([1, 2, 3])})


LEGS = [
    Leg("join", check_join, classify_join, strategy=strat_join, n={"quick": 2500, "thorough": 50000}, shards={"quick": 16, "thorough": 32},
        rule="constructed 3-D tree/ring fragments of 1-10 heavy atoms + attachment point, random poses, dist None|0.8-3.0, optimize_rotation on/off, charge/mult/name/bond overrides (charge 0 its own class), "
             "attachment vectors in general position / exactly parallel / exactly antiparallel / along z; non-trivial = both fragments have >=3 heavy atoms"),
    Leg("cli", check_cli, lambda r: (len(r["core"]["aps"]) >= 2, ["mode=" + r["mode"], "ap_labels_in_atom_order" if list(r["ap_relabel"])[: len(r["core"]["aps"])] == sorted(list(r["ap_relabel"])[: len(r["core"]["aps"])]) else "ap_labels_out_of_order"]),
        strategy=strat_cli, n={"quick": 120, "thorough": 2500}, shards={"quick": 16, "thorough": 32},
        rule="the command itself: generated core (2-3 attachment points whose LABELS need not follow the atom order) and 2-3 substituents written to libraries, molli.scripts.combine.molli_main run in-process for every mode; "
             "per product a structural oracle from the inputs alone (atoms, no attachment point left, i-th site carries the i-th substituent named in the key); non-trivial = >=2 attachment points"),
    Leg("iter", check_iter, classify_iter, strategy=strat_iter, n={"quick": 300, "thorough": 5000}, shards={"quick": 16, "thorough": 32},
        rule="cores with 2-4 attachment points, all or a proper subset of them selected, joined successively with substituents exactly as molli combine does (index ap_i - i, optimize_rotation=True): single-join oracle at every step, and the product of the real molli.scripts.combine._ml_assemble (imported with a placeholder openbabel module) must equal the stepwise product; in a third of the cases one substituent is defective (attachment point with two bonds): no product may come back; non-trivial = >=2 joins on a core of >=3 atoms"),
]
