"""C03 — a crash while appending never damages committed records or shows a torn one.

For a generated (base records, append session, recovery session) the harness records the
byte stream the session hands to the file object (a recording proxy around UKVFile._stream,
attached by attribute assignment), then rebuilds the file image for EVERY byte prefix of that
stream (exhaustive per session) and runs the recovery histories on each image:
  R1 open('r')                        -> committed records exact; session records all-or-nothing
  R2 open('a') + puts + close + 'r'   -> old and new records read back, torn key reusable
  R3 second crash: every byte prefix of the recovery session's stream, then open('r')
The session is driven through a raw UKVFile or through Collection.writing() (bufsize 10^6).
"""
from __future__ import annotations

import itertools
import os

from hypothesis import strategies as st

from vf.core import Fail, Leg, HarnessError, tally

LEVEL = "fault_enumeration"
ASSUMPTIONS = [
    "crash model: the file holds a prefix of the bytes the process handed to the file object, in order (no reordering below the file API)",
    "a crash during file creation (torn file header) is outside the statement",
]

_counter = itertools.count()


def _path(tag):
    d = os.path.join(os.environ["VF_SCRATCH"], "c03", str(os.getpid()))
    os.makedirs(d, exist_ok=True)
    return os.path.join(d, f"{tag}{next(_counter)}.ukv")


def key(i: int, klen: int) -> bytes:
    klen = max(1, min(255, klen))
    return (bytes([65 + i % 60]) + bytes([48 + i // 60]) * 1 + b"k" * klen)[:klen] if klen > 1 else bytes([65 + i % 60])


def val(i: int, vlen: int) -> bytes:
    return bytes(((i * 37 + j * 7) % 251) + 1 for j in range(vlen))


class Rec:
    """Recording proxy: logs (offset, bytes) of every write, forwards everything."""

    def __init__(self, real):
        self._r = real
        self.log: list[tuple[int, bytes]] = []

    def write(self, b):
        self.log.append((self._r.tell(), bytes(b)))
        return self._r.write(b)

    def truncate(self, *a):
        pos = a[0] if a and a[0] is not None else self._r.tell()
        self.log.append((pos, None))
        return self._r.truncate(*a)

    def __getattr__(self, n):
        return getattr(self._r, n)


def images(base: bytes, log, want=None):
    """yield (prefix_len, image, where) for every (wanted) byte prefix of the logged stream"""
    img = bytearray(base)
    done = 0
    if want is None or want(0):
        yield 0, bytes(img), None
    for wi, (off, data) in enumerate(log):
        if data is None:  # truncate: atomic; cuts, or extends with zeros (ftruncate semantics)
            if off > len(img):
                img.extend(b"\0" * (off - len(img)))
            else:
                del img[off:]
            if want is None or want(done):
                yield done, bytes(img), (wi, -1)
            continue
        for j in range(1, len(data) + 1):
            if off + j - 1 >= len(img):
                img.extend(b"\0" * (off + j - len(img)))
            img[off + j - 1] = data[j - 1]
            done += 1
            if want is None or want(done):
                yield done, bytes(img), (wi, j)


def _effective_log(start: bytes, log, path):
    """the write log as recorded through the stream proxy - unless replaying it over `start` does not give the file now on disk (the
    implementation wrote past the stream object, e.g. through the descriptor): then the crash model falls back to what every writer is
    bound to: the bytes that differ from `start` appeared in file order"""
    final = open(path, "rb").read()
    img = bytearray(start)
    for off, data in log:
        if data is None:
            if off > len(img):
                img.extend(b"\0" * (off - len(img)))
            else:
                del img[off:]
        else:
            if off > len(img):
                img.extend(b"\0" * (off - len(img)))
            img[off:off + len(data)] = data
    if bytes(img) == final:
        return log
    cp = 0
    n = min(len(start), len(final))
    while cp < n and start[cp] == final[cp]:
        cp += 1
    out = []
    if cp < len(start):
        out.append((cp, None))
    out.append((cp, final[cp:]))
    return out


def _recs(pairs, start):
    return [(key(start + i, kl), val(start + i, vl)) for i, (kl, vl) in enumerate(pairs)]


def _run_session(path, recs, via, readback=None):
    """appends recs to the file at path; returns the write log.  With a readback list, every record is also read INSIDE the session
    right after its put (through the writing handle itself): (key, bytes read or exception) is appended."""
    from molli.storage.ukvfile import UKVFile

    if via == "raw":
        f = UKVFile(path, "a")
        # (no flush here: flushing a buffered random-access stream also drops its read-ahead buffer - the harness would hide stale reads)
        start = open(path, "rb").read()   # image after open (a torn tail may have been cut off)
        r = Rec(f._stream)
        f._stream = r
        for k, v in recs:
            f.put(k, v)
            if readback is not None:
                try:
                    readback.append((k, f.get(k)))
                except Exception as e:  # noqa
                    readback.append((k, e))
        f.close()
        return _effective_log(start, r.log, path), start
    from molli.storage import Collection, UkvCollectionBackend
    import atexit

    c = Collection(path, UkvCollectionBackend, readonly=False, bufsize=10**6 if via == "coll_buf" else -1)
    atexit.unregister(c._backend.flush)
    cm = c.writing()
    cm.__enter__()
    f = c._backend._ukvfile
    start = open(path, "rb").read()
    r = Rec(f._stream)
    f._stream = r
    try:
        for k, v in recs:
            c[k.decode("utf-8")] = v
            if readback is not None:
                try:
                    readback.append((k, c[k.decode("utf-8")]))
                except Exception as e:  # noqa
                    readback.append((k, e))
    finally:
        cm.__exit__(None, None, None)
    return _effective_log(start, r.log, path), start


class _Interrupting:
    """stream proxy: the write that crosses byte `at` of the session's output delivers only the bytes before it and then raises
    KeyboardInterrupt (Ctrl-C / a SIGTERM handler calling sys.exit while a record is going out) - once"""

    def __init__(self, real, at):
        self._r, self._at, self._n, self._done = real, at, 0, False

    def write(self, b):
        b = bytes(b)
        if not self._done and self._n + len(b) > self._at:
            self._done = True
            part = b[: max(0, self._at - self._n)]
            if part:
                self._r.write(part)
            self._n += len(part)
            raise KeyboardInterrupt("injected")
        self._n += len(b)
        return self._r.write(b)

    def __getattr__(self, n):
        return getattr(self._r, n)


def _run_session_interrupted(path, recs, via, at):
    """the append session is hit by KeyboardInterrupt at byte `at` of its output - and then winds down the ORDERLY way (the exception
    travels up through the with-block / the handle is closed), unlike a killed process"""
    from molli.storage.ukvfile import UKVFile

    if via == "raw":
        f = UKVFile(path, "a")
        f._stream = _Interrupting(f._stream, at)
        try:
            for k, v in recs:
                f.put(k, v)
        except KeyboardInterrupt:
            pass
        finally:
            f.close()
        return
    from molli.storage import Collection, UkvCollectionBackend
    import atexit

    # (buffered flavour: a buffer that overflows at the LAST put of the session - the flush it triggers, inside the with-block, is the one
    #  that gets interrupted, with records still queued behind the one going out; the exit-time flush then writes those)
    bs = max(1, sum(len(k) + len(v) for k, v in recs) - 1) if via == "coll_buf" else -1
    c = Collection(path, UkvCollectionBackend, readonly=False, bufsize=bs)
    atexit.unregister(c._backend.flush)
    try:
        with c.writing():
            fu = c._backend._ukvfile
            fu._stream = _Interrupting(fu._stream, at)
            for k, v in recs:
                c[k.decode("utf-8")] = v
    except KeyboardInterrupt:
        pass
    finally:
        c._backend._write_queue.clear()


def _read_all(path):
    from molli.storage.ukvfile import UKVFile

    f = UKVFile(path, "r")
    try:
        ks = list(f.keys())
        vals = {k: f.get(k) for k in ks}
        # the bulk views of the same handle show the same records; if they do not, it is THEIR view that is judged
        its = list(f.items())
        if [k for k, _ in its] != ks or any(v != vals[k] for k, v in its) or list(f.values()) != [v for _, v in its]:
            return [k for k, _ in its], dict(its)
        return ks, vals
    finally:
        f.close()


def _reuse_history(path, base_img, img, rec2, via, pre, direct=False):
    """ONE long-lived object (UKVFile handle / Collection) goes through the whole recovery: optionally it has already been used on the
    intact library (pre), then the crash image appears on disk (another process' append died), then on the SAME object: a reading use,
    a writing use with the recovery puts, a reading use.  Returns (view after the first reading use, view at the end)."""
    from molli.storage.ukvfile import UKVFile

    with open(path, "wb") as fh:
        fh.write(base_img if pre else img)
    if via == "raw":
        f = UKVFile(path, "r")
        list(f.keys())
        f.close()
        if pre:
            f.open("a")          # ... and as a writer (nothing written)
            f.close()
            with open(path, "wb") as fh:
                fh.write(img)
        if direct and pre:
            ks1, v1 = None, None       # (no reading use in between: the object goes straight from the intact library to the recovery append)
        else:
            f.open("r")
            ks1 = list(f.keys())
            v1 = {k: f.get(k) for k in ks1}
            f.close()
        f.open("a")
        for k, v in rec2:
            f.put(k, v)
        f.close()
        f.open("r")
        ks2 = list(f.keys())
        v2 = {k: f.get(k) for k in ks2}
        f.close()
        return (ks1, v1), (ks2, v2)
    from molli.storage import Collection, UkvCollectionBackend
    import atexit

    c = Collection(path, UkvCollectionBackend, readonly=False, bufsize=10**6 if via == "coll_buf" else -1)
    atexit.unregister(c._backend.flush)
    with c.reading():
        sorted(c.keys())
    if pre:
        with c.writing():
            pass
        with open(path, "wb") as fh:
            fh.write(img)
    if direct and pre:
        ks1, v1 = None, None
    else:
        with c.reading():
            ks1 = [k.encode() for k in c.keys()]
            v1 = {k: c[k.decode()] for k in ks1}
    with c.writing():
        for k, v in rec2:
            c[k.decode("utf-8")] = v
    with c.reading():
        ks2 = [k.encode() for k in c.keys()]
        v2 = {k: c[k.decode()] for k in ks2}
    return (ks1, v1), (ks2, v2)


def _kenc(k: bytes, via) -> bytes:
    return k if via == "raw" else k.decode("latin-1").encode()


def check(recipe) -> list[Fail]:
    from molli.storage.ukvfile import UKVFile

    via = recipe.get("via", "raw")
    if via not in ("raw", "coll", "coll_buf"):
        raise HarnessError("bad via")
    fails: list[Fail] = []
    base = _recs(recipe["base"], 0)
    sess = _recs(recipe["session"], len(base))
    recov = _recs(recipe["recovery"], len(base) + len(sess))
    if recipe.get("utf8_keys"):
        # record names with multi-byte UTF-8 characters (Greek letters, accents): a torn key may end INSIDE a character
        pre_ = "\u03b1\u03b2\u00e9".encode("utf-8")
        fit_ = lambda b_: b_[:255].decode("utf-8", "ignore").encode("utf-8")      # noqa: E731 (never cut inside a character ourselves)
        base = [(fit_(pre_ + k) if k else k, v) for k, v in base]
        sess = [(fit_(pre_ + k[:240] + "\u03c9".encode("utf-8")) if k else k, v) for k, v in sess]
        recov = [(fit_(pre_ + k) if k else k, v) for k, v in recov]
    if recipe.get("zero_vals"):
        # values that consist of zero bytes (padding, empty arrays): whatever is left of one on disk looks like empty records
        sess = [(k, b"\0" * len(v)) for k, v in sess]
        recov = [(k, b"\0" * len(v)) for k, v in recov]
    ek = recipe.get("empty_key")
    if ek is not None:
        # one record of the history is stored under the empty key (an ordinary key)
        j = ek % (len(base) + len(sess))
        if j < len(base):
            base[j] = (b"", base[j][1])
        else:
            sess[j - len(base)] = (b"", sess[j - len(base)][1])
    reuse_torn = bool(recipe.get("reuse_torn_key", True))
    only = recipe.get("only_offset")
    only2 = recipe.get("only_offset2")
    second = recipe.get("second_crash_every", 0)
    path = _path("s")
    wpath = _path("w")
    w2path = _path("u")
    try:
        f = UKVFile(path, "x", h2=b"c03", b0=b"\x01\x02")
        for k, v in base:
            f.put(k, v)
        f.close()
        base_img = open(path, "rb").read()
        log, _ = _run_session(path, sess, via)
        total = sum(len(d) for _, d in log if d is not None)
        bmap = dict(base)
        smap = dict(sess)
        n_img = n_inside = 0
        nt_keys = []
        # record boundaries in stream coordinates
        bounds = set()
        acc = 0
        for k, v in sess:
            bounds.add(acc)
            acc += 5 + len(k) + len(v)
        bounds.add(acc)

        def fail(sig, detail, p, p2=None):
            r = dict(recipe, only_offset=p)
            if p2 is not None:
                r["only_offset2"] = p2
            fails.append(Fail(sig, f"crash after {p} of {total} session bytes" + (f", second crash after {p2} recovery bytes" if p2 is not None else "") + f": {detail}", recipe=r))

        def check_view(ks, vals, allowed_new: dict, must: dict, p, p2, stage):
            for k in must:
                if k not in vals:
                    fail(f"{stage}:committed-record-lost", f"key {k[:8]!r}[{len(k)}] missing", p, p2)
                    return False
                if vals[k] != must[k]:
                    fail(f"{stage}:committed-record-altered", f"key {k[:8]!r}[{len(k)}]: {len(vals[k])}B vs {len(must[k])}B", p, p2)
                    return False
            for k in ks:
                if k in must:
                    continue
                if k not in allowed_new:
                    fail(f"{stage}:partial-or-foreign-key-listed", f"key {k[:12]!r}[{len(k)}]", p, p2)
                    return False
                want = allowed_new[k]
                got = vals[k]
                if isinstance(want, tuple):
                    if got not in want:
                        fail(f"{stage}:torn-value-visible", f"key {k[:8]!r}: got {len(got)}B", p, p2)
                        return False
                elif got != want:
                    kind = "truncated" if want.startswith(got) else ("zero-padded" if got.rstrip(b"\0") != got and want.startswith(got.rstrip(b"\0")) else "altered")
                    fail(f"{stage}:torn-value-visible:{kind}", f"key {k[:8]!r}[{len(k)}]: got {len(got)}B want {len(want)}B", p, p2)
                    return False
            if len(set(ks)) != len(ks):
                fail(f"{stage}:duplicate-key-listed", "", p, p2)
                return False
            return True

        stride = recipe.get("stride")
        fbounds = set()   # field boundaries: record start, end of header, end of key
        acc = 0
        for k, v in sess:
            fbounds.update((acc, acc + 5, acc + 5 + len(k)))
            acc += 5 + len(k) + len(v)
        fbounds.add(acc)

        def want(p):
            if only is not None:
                return p == only
            if not stride:
                return True
            return p % stride == 0 or any(abs(p - b) <= 16 for b in fbounds)

        for p, img, _ in images(base_img, log, want):
            inside = p not in bounds
            n_img += 1
            if inside:
                n_inside += 1
                nt_keys.append((recipe["base"], recipe["session"], via, p))
            open(wpath, "wb").write(img)
            # R1
            try:
                ks, vals = _read_all(wpath)
            except Exception as e:
                fail("R1:reopen-raises", repr(e), p)
                continue
            if not check_view(ks, vals, smap, bmap, p, None, "R1"):
                continue
            if open(wpath, "rb").read() != img:
                fail("R1:read-only-open-modified-file", "", p)
                continue
            visible = {k: vals[k] for k in ks if k in smap}
            # R2: recovery append (optionally reusing the key of the first invisible session record)
            rec2 = list(recov)
            torn = [k for k, _ in sess if k not in visible]
            if reuse_torn and torn:
                rec2 = [(torn[0], b"REUSED" + bytes([1 + p % 250]))] + rec2
            rb = []
            try:
                rlog, rstart = _run_session(wpath, rec2, via, readback=rb)
            except Exception as e:
                fail("R2:recovery-append-raises", repr(e), p)
                continue
            bad_rb = [(k, g) for (k, g), (_, v) in zip(rb, rec2) if not (isinstance(g, bytes) and g == v)]
            if bad_rb:
                k, g = bad_rb[0]
                fail("R2:record-read-inside-the-recovery-session-differs", f"key {k[:8]!r}[{len(k)}]: " + (repr(g)[:80] if not isinstance(g, bytes) else f"{len(g)}B read, {len(dict(rec2)[k])}B put"), p)
                continue
            after_img = open(wpath, "rb").read()
            try:
                ks2, vals2 = _read_all(wpath)
            except Exception as e:
                fail("R2:reopen-raises", repr(e), p)
                continue
            must2 = dict(bmap)
            must2.update(visible)
            must2.update(dict(rec2))
            if not check_view(ks2, vals2, {}, must2, p, None, "R2"):
                continue
            # R4: the same recovery through ONE long-lived object (handle / Collection re-used across the sessions)
            if recipe.get("reuse") and (only is not None or stride or p % 2 == 0 or not inside):
                n_img += 1
                try:
                    (ksa, va), (ksb, vb) = _reuse_history(w2path, base_img, img, rec2, via, pre=(p % 4 == 0), direct=(p % 8 == 4))
                except Exception as e:
                    fail("R4:re-used-object-raises", repr(e)[:200], p)
                    continue
                if ksa is not None and not check_view(ksa, va, smap, bmap, p, None, "R4:first-read"):
                    continue
                if not check_view(ksb, vb, {}, must2, p, None, "R4:after-recovery"):
                    continue
                try:
                    ks4, vals4 = _read_all(w2path)
                except Exception as e:
                    fail("R4:reopen-raises", repr(e), p)
                    continue
                if not check_view(ks4, vals4, {}, must2, p, None, "R4:fresh-handle"):
                    continue
            # R3: second crash inside the recovery session
            if second and (only is not None or p % second == 0 or not inside or (p + 1) in bounds or (p - 1) in bounds):
                rtotal = sum(len(d) for _, d in rlog if d is not None)
                for p2, img2, _ in images(rstart, rlog):
                    if only2 is not None and p2 != only2:
                        continue
                    n_img += 1
                    open(wpath, "wb").write(img2)
                    try:
                        ks3, vals3 = _read_all(wpath)
                    except Exception as e:
                        fail("R3:reopen-raises", repr(e), p, p2)
                        break
                    must3 = dict(bmap)
                    must3.update(visible)
                    if not check_view(ks3, vals3, dict(rec2), must3, p, p2, "R3"):
                        break
        # R5: not a killed process but an INTERRUPTED one: KeyboardInterrupt at byte p of the session's output, then the orderly wind-down
        #     (with-block exit incl. its flush of what is still queued, close).  Same oracle as R1 on what is left on disk.
        if recipe.get("interrupt") and total > 0:
            step5 = max(1, total // 40) if only is None else 1
            for p5 in ([only] if only is not None else list(range(1, total, step5)) + sorted(b_ + d_ for b_ in bounds for d_ in (1, 3, 5, 6) if 0 < b_ + d_ < total)):
                open(wpath, "wb").write(base_img)
                n_img += 1
                try:
                    _run_session_interrupted(wpath, sess, via, p5)
                    ks5, vals5 = _read_all(wpath)
                except Exception as e:
                    fail("R5:interrupted-session-or-reopen-raises", repr(e)[:200], p5)
                    continue
                check_view(ks5, vals5, smap, bmap, p5, None, "R5:after-KeyboardInterrupt")
        tally(units=n_img, nontrivial_keys=nt_keys, labels={"images": n_img, "images_inside_a_record": n_inside, f"via={via}": 1})
    finally:
        for q in (path, wpath, w2path):
            try:
                os.unlink(q)
            except OSError:
                pass
    # keep one failure per signature with the smallest offset (they are appended in offset order)
    seen = set()
    out = []
    for f_ in fails:
        if f_.sig not in seen:
            seen.add(f_.sig)
            out.append(f_)
    return out


def classify(recipe):
    labels = [f"session_puts={len(recipe['session'])}", f"base={len(recipe['base'])}"]
    if any(v == 0 for _, v in recipe["session"]):
        labels.append("empty_value")
    if any(k >= 255 for k, _ in recipe["session"]):
        labels.append("255B_key")
    if any(v > 8192 for _, v in recipe["session"]):
        labels.append("value_gt_io_buffer")
    if recipe.get("second_crash_every"):
        labels.append("second_crash")
    if recipe.get("empty_key") is not None:
        labels.append("has_empty_key")
    if recipe.get("reuse"):
        labels.append("recovery_also_through_one_reused_object")
    return False, labels   # non-trivial units are the crash offsets, reported through tally()


def strat(tier):
    big = tier != "quick"
    kl = st.one_of(st.integers(1, 12), st.sampled_from([1, 2, 255, 254, 100]))
    vl = st.one_of(st.integers(0, 40), st.integers(0, 300), st.sampled_from([0, 1, 255, 256]))
    pair = st.tuples(kl, vl).map(list)
    small_pair = st.tuples(st.integers(1, 6), st.integers(0, 12)).map(list)
    return st.fixed_dictionaries(
        {
            "via": st.sampled_from(["raw", "raw", "coll", "coll_buf"]),
            "base": st.lists(pair, min_size=0, max_size=3),
            "session": st.lists(pair, min_size=1, max_size=4),
            "recovery": st.lists(small_pair, min_size=0, max_size=2),
            "reuse_torn_key": st.booleans(),
            "second_crash_every": st.sampled_from([0, 0, 17] if not big else [0, 5, 1]),
            "empty_key": st.one_of(st.none(), st.none(), st.integers(0, 6)), "reuse": st.booleans(), "interrupt": st.booleans(), "zero_vals": st.sampled_from([False, False, True]), "utf8_keys": st.sampled_from([False, False, True]),
        }
    )


def enum_big(tier, shard, nshards):
    """records larger than the 8 kB io buffer / the 64 kB mark: prefixes sampled (every 64th offset + all
    offsets within 16 B of a field boundary) - the only non-exhaustive leg"""
    cases = [
        {"via": "raw", "base": [[3, 10]], "session": [[3, 70000]], "recovery": [[2, 5]], "reuse_torn_key": True, "second_crash_every": 0, "stride": 64},
        {"via": "coll_buf", "base": [[3, 10]], "session": [[2, 9000], [4, 8200]], "recovery": [[2, 5]], "reuse_torn_key": False, "second_crash_every": 0, "stride": 16},
        {"via": "raw", "base": [], "session": [[255, 65536], [1, 0]], "recovery": [], "reuse_torn_key": True, "second_crash_every": 0, "stride": 64},
        {"via": "coll", "base": [[1, 0]], "session": [[5, 65535]], "recovery": [[1, 1]], "reuse_torn_key": True, "second_crash_every": 0, "stride": 64},
    ]
    # values past the 1 MiB / 4 MiB marks (size thresholds of any "large record" path)
    mb = {"via": "raw", "base": [[3, 10]], "session": [[4, (1 << 20) + 4097], [2, 5]], "recovery": [[2, 5]], "reuse_torn_key": True, "second_crash_every": 0, "stride": 8192, "reuse": True}
    # an INTERRUPTED (not killed) buffered session whose big zero-valued record is followed by short ones (stage R5)
    intr = {"via": "coll_buf", "base": [[3, 10]], "session": [[2, 40], [4, 6000], [2, 5], [3, 17]], "recovery": [[2, 5]], "reuse_torn_key": True, "second_crash_every": 0, "stride": 512, "interrupt": True, "zero_vals": True}
    if tier == "quick":
        cases = cases[1:2] + [mb, intr]
    else:
        cases += [mb, dict(mb, via="coll_buf", session=[[2, 5], [3, (1 << 22) + 1]], stride=65536), intr, dict(intr, zero_vals=False), dict(intr, session=[[4, 70000], [2, 5]])]
    for i, c in enumerate(cases):
        if i % nshards == shard:
            yield c


LEGS = [
    Leg(
        "crash_big", check, classify, enumerate=enum_big, shards={"quick": 3, "thorough": 8},
        rule="fixed sessions with 8-70 kB values and one value just over 1 MiB (thorough: also 4 MiB); crash offsets sampled: every 16th/64th byte plus all offsets within 16 B of a field boundary (NOT exhaustive)",
    ),
    Leg(
        "crash", check, classify, strategy=strat,
        n={"quick": 240, "thorough": 5000}, shards={"quick": 16, "thorough": 64},
        rule="Hypothesis draws (0-3 committed records, append session of 1-4 puts with key 1-255 B / value 0-300 B, recovery session, raw|Collection route); "
             "EVERY byte prefix of the session's write stream is turned into a crash image (exhaustive per session) and each image goes through R1/R2 "
             "(+R3 second crash on a subset in quick, on all in thorough); evaluations = crash images opened; non-trivial = crash offset strictly inside a record; distinct = (session, offset)",
    ),
]
