"""C16 — adding implicit hydrogens only completes valences.

Legs
  grown   molecules grown atom by atom from tetrahedral / trigonal templates (non-degenerate by construction),
          target class (neighbour count x element x charge x radical x bond types x hint) drawn first
  cdxml   every labelled fragment of the bundled CDXML files (hints come from the parser)
Oracle: before/after snapshots + per-centre hydrogen count from the harness' own valence table.
"""
from __future__ import annotations

import math
import warnings

import numpy as np
from hypothesis import strategies as st

from vf import chem
from vf.core import Fail, Leg, HarnessError, tally, exc_sig

LEVEL = "exploration"
ASSUMPTIONS = [
    "centres are non-degenerate by construction: neighbours come from tetrahedral / trigonal templates with jitter (never two collinear neighbours around a centre that needs hydrogens)",
    "covalent radii are read through molli's data table (the property fixes the sum, not the table)",
    "distance tolerance 1e-3 relative: the two-hydrogen branch uses 0.5736/0.8192 whose norm is 1.00006",
    "ligand bonds to atoms typed CoordinationCenter (hapto centres of CDXML drawings) are ignored by the placement code on purpose: for centres bonded to one the direction is not asserted (count, distance, finiteness are)",
    "drawing hints never exceed the free valence: hint <= 4 - (number of neighbours)",
    "three-neighbour centres that are planar within the code's own allowance (|normal . (centroid - centre)| <= 0.05) may get their hydrogen on either side of the plane",
]
GROUP = {5: 13, 13: 13, 31: 13, 6: 14, 14: 14, 32: 14, 50: 14, 7: 15, 15: 15, 33: 15, 8: 16, 16: 16, 34: 16}
ORDER = {0: 0.0, 1: 1.0, 2: 2.0, 3: 3.0, 4: 4.0, 5: 5.0, 6: 6.0, 10: 0.0, 11: 0.0, 20: 1.5, 21: 1.0, 98: 0.0, 99: None, 100: 1.0, 101: 0.0}
CENTRES = [5, 6, 7, 8, 14, 15, 16]
BYSTANDERS = [9, 17, 35, 53, 26, 46, 3, 0, 1]
TET = np.array([[0.0, 0.0, 1.0], [0.94280904, 0.0, -0.33333333], [-0.47140452, 0.81649658, -0.33333333], [-0.47140452, -0.81649658, -0.33333333]])
TRI = np.array([[0.0, 0.0, 1.0], [0.8660254, 0.0, -0.5], [-0.8660254, 0.0, -0.5]])


def expected_h(z, fc, spin, bv):
    g = GROUP[z]
    ve = g - 10
    electrons = ve - fc - abs(spin)
    return max(4 - abs(4 - electrons) - math.ceil(bv), 0)


def _rot_to(u):
    """proper rotation R (column convention) with R @ [0,0,1] = u"""
    u = u / np.linalg.norm(u)
    z = np.array([0.0, 0.0, 1.0])
    v = np.cross(z, u)
    c = float(np.dot(z, u))
    if np.linalg.norm(v) < 1e-12:
        return np.eye(3) if c > 0 else np.diag([1.0, -1.0, -1.0])
    K = np.array([[0, -v[2], v[1]], [v[2], 0, -v[0]], [-v[1], v[0], 0]])
    return np.eye(3) + K + K @ K / (1 + c)


def grow(r):
    """r -> (atoms spec list, coords, bonds) ; atoms: dict(el, fc, spin, hint)"""
    rng = np.random.default_rng(r["gseed"])
    atoms = [dict(el=r["root"]["el"], fc=r["root"]["fc"], spin=r["root"]["spin"], hint=r["root"]["hint"])]
    coords = [np.zeros(3)]
    bonds = []
    # (atom index, direction to parent or None, template, number of children, depth)
    todo = [(0, None, r["root"]["tmpl"], r["root"]["nchild"], 0)]
    spec_iter = iter(r["nodes"])
    while todo:
        i, up, tmpl, nchild, depth = todo.pop(0)
        T = TET if tmpl == "tet" else TRI
        if up is None:
            R0 = np.eye(3)
            free = list(T)
        else:
            R0 = _rot_to(up)
            a = rng.uniform(0, 2 * np.pi)
            Rz = np.array([[math.cos(a), -math.sin(a), 0], [math.sin(a), math.cos(a), 0], [0, 0, 1]])
            R0 = R0 @ Rz
            free = list(T[1:])
        for k in range(min(nchild, len(free))):
            try:
                sp = next(spec_iter)
            except StopIteration:
                break
            d = R0 @ free[k]
            d = d + rng.normal(scale=0.04, size=3)
            d /= np.linalg.norm(d)
            j = len(atoms)
            atoms.append(dict(el=sp["el"], fc=sp["fc"], spin=sp["spin"], hint=sp["hint"], cc=bool(sp.get("cc"))))
            coords.append(coords[i] + d * (1.3 + 0.3 * rng.random()))
            bonds.append((i, j, sp["bt"]))
            if depth < 2 and sp["el"] in GROUP:
                todo.append((j, -d, sp["tmpl"], sp["nchild"], depth + 1))
    deg = [0] * len(atoms)
    for (i_, j_, _) in bonds:
        deg[i_] += 1
        deg[j_] += 1
    for k_, a_ in enumerate(atoms):
        if a_["hint"] is not None:
            a_["hint"] = min(a_["hint"], max(0, 4 - deg[k_]))
    coords = np.array(coords)
    if r["orient"] == "random":
        from vf.props.c11 import _proper_R

        coords = coords @ _proper_R(r["gseed"]) + rng.normal(size=3) * 3
    elif r["orient"] == "first_bond_along_z" and len(coords) > 1:
        # rotate so that the first bond is EXACTLY along +z
        d = coords[1] - coords[0]
        L = np.linalg.norm(d)
        Rr = _rot_to(d / L).T
        coords = coords @ Rr.T
        coords[1] = coords[0] + np.array([0.0, 0.0, L])
    return atoms, coords, bonds


def build(r, cls):
    import molli as ml
    from molli.chem import Atom, BondType, AtomType

    spec, coords, bonds = grow(r)
    atoms = []
    for s in spec:
        attrib = {} if s["hint"] is None else {"__implicit_hydrogens": s["hint"]}
        # (an atom may be flagged as a coordination centre: its bonds count in its neighbours' valence like any other bond)
        atoms.append(Atom(element=s["el"], formal_charge=s["fc"], formal_spin=s["spin"], attrib=attrib, **({"atype": AtomType.CoordinationCenter} if s.get("cc") else {})))
    kw = {"atomic_charges": np.linspace(-0.2, 0.2, len(atoms))} if cls is ml.Molecule else {}
    if cls is ml.Molecule and r.get("decl"):
        # total charge / multiplicity declared at molecule level (not derivable from per-atom annotations), name, attributes
        kw.update(charge=r["decl"][0], mult=r["decl"][1], name="declared")
    if r.get("transmute"):
        # every atom started its life as ANOTHER element, was looked at (radii queried, as the display and bond-length helpers do) and
        # was then given the element of the recipe by assignment: the structure is the recipe's
        from molli.chem import Element
        finals = [a_.element for a_ in atoms]
        for a_ in atoms:
            a_.element = Element.C if int(a_.element) != 6 else Element.N
            _ = (a_.cov_radius_1, a_.vdw_radius)
        for a_, e_ in zip(atoms, finals):
            a_.element = e_
    m = cls(atoms, coords=coords, **kw)
    if cls is ml.Molecule and r.get("decl"):
        m.attrib["note"] = "kept"
    for (i, j, bt) in bonds:
        m.connect(i, j, btype=BondType(bt))
    return m


def oracle(m, fails, where, second_call=True, subject=None, subset=None):
    """runs add_implicit_hydrogens on m and checks everything; returns label counts"""
    import molli as ml
    from molli.chem import Element

    n0 = m.n_atoms
    atoms0 = list(m.atoms)
    hints = {id(a): a.attrib.get("__implicit_hydrogens") for a in atoms0}
    before_atoms = [(int(a.element), a.isotope, a.label, int(a.atype), int(a.stereo), int(a.geom), a.formal_charge, a.formal_spin,
                     chem.norm_attr({k: v for k, v in a.attrib.items() if k != "__implicit_hydrogens"})) for a in atoms0]
    before_bonds = [(id(b.a1), id(b.a2), int(b.btype), b.label, int(b.stereo), b.f_order) for b in m.bonds]
    before_coords = m.coords.copy()
    before_mol = (m.charge, m.mult, m.name, chem.norm_attr(dict(m.attrib))) if isinstance(m, ml.Molecule) else None
    before_q = np.array(m.atomic_charges, dtype=float).copy() if hasattr(m, "atomic_charges") else None
    neigh0 = {id(a): [x for x in m.connected_atoms(a)] for a in atoms0}
    bv0 = {}
    for a in atoms0:
        tot = 0.0
        for b in m.bonds_with_atom(a):
            o = ORDER[int(b.btype)]
            tot += b.f_order if o is None else o
        bv0[id(a)] = tot
    hint_free = all(v is None for v in hints.values())
    chosen = None
    if subset is not None:
        # the documented per-atom form add_implicit_hydrogens(*atoms): only the named (group 13-16) atoms are completed
        cand = [a for a in atoms0 if int(a.element) in GROUP]
        chosen = [a for k, a in enumerate(cand) if (subset[0] >> (k % 16)) & 1]
        if not chosen:
            chosen = None
    try:
        with warnings.catch_warnings():
            warnings.simplefilter("ignore")
            with np.errstate(all="ignore"):
                if chosen is None:
                    m.add_implicit_hydrogens()
                else:
                    # Atom objects only: integer indices raise AttributeError on this tree although the annotation says
                    # AtomLike - an API wart outside what the property states, noted in DESIGN.md, not asserted
                    m.add_implicit_hydrogens(*(chosen if subset[1] else reversed(chosen)))
    except Exception as e:
        s = exc_sig(e)
        if s is None:
            raise
        fails.append(Fail(f"raises:{s}", f"{where}: {e!r}"[:300]))
        return {}
    labels = {}
    # ---- nothing else changed
    if [id(a) for a in m.atoms[:n0]] != [id(a) for a in atoms0]:
        fails.append(Fail("existing-atoms-reordered-or-replaced", where))
        return labels
    after_atoms = [(int(a.element), a.isotope, a.label, int(a.atype), int(a.stereo), int(a.geom), a.formal_charge, a.formal_spin,
                    chem.norm_attr({k: v for k, v in a.attrib.items() if k != "__implicit_hydrogens"})) for a in m.atoms[:n0]]
    if after_atoms != before_atoms:
        fails.append(Fail("existing-atom-fields-changed", where))
    if [(id(b.a1), id(b.a2), int(b.btype), b.label, int(b.stereo), b.f_order) for b in m.bonds[: len(before_bonds)]] != before_bonds:
        fails.append(Fail("existing-bonds-changed", where))
    if not np.array_equal(m.coords[:n0], before_coords, equal_nan=True):
        fails.append(Fail("existing-coordinates-changed", where))
    if before_q is not None:
        q = np.asarray(m.atomic_charges)
        if len(q) != m.n_atoms or q.dtype.kind != "f" or not np.array_equal(np.asarray(q[:n0], dtype=float), before_q, equal_nan=True):
            fails.append(Fail("existing-charges-changed-or-misaligned", where))
    if before_mol is not None and (m.charge, m.mult, m.name, chem.norm_attr(dict(m.attrib))) != before_mol:
        fails.append(Fail("molecule-level-charge-multiplicity-name-or-attributes-changed", f"{where}: {before_mol} -> {(m.charge, m.mult, m.name, dict(m.attrib))}"))
    if m.coords.shape != (m.n_atoms, 3):
        fails.append(Fail("coords-rows!=atoms", f"{where}: {m.coords.shape} for {m.n_atoms} atoms"))
        return labels
    # ---- the new atoms
    new = m.atoms[n0:]
    got = {}
    old_ids = {id(a) for a in atoms0}
    for h in new:
        hb = [b for b in m.bonds if h in b]
        if int(h.element) != 1:
            fails.append(Fail("new-atom-is-not-hydrogen", f"{where}: {h.element!r}"))
            return labels
        if len(hb) != 1:
            fails.append(Fail("new-hydrogen-not-bonded-exactly-once", f"{where}: {len(hb)} bonds"))
            return labels
        c = hb[0] % h
        if id(c) not in old_ids or int(c.element) not in GROUP:
            fails.append(Fail("new-hydrogen-bonded-to-wrong-kind-of-atom", f"{where}: bonded to {c.element!r}"))
            return labels
        got.setdefault(id(c), []).append(h)
    for a in atoms0:
        z = int(a.element)
        nb = len(neigh0[id(a)])
        if z not in GROUP:
            if id(a) in got:
                fails.append(Fail("hydrogens-on-non-13-16-atom", f"{where}: {a.element!r}"))
            continue
        hint = hints[id(a)]
        exp = hint if hint is not None else expected_h(z, a.formal_charge, a.formal_spin, bv0[id(a)])
        n_h = len(got.get(id(a), []))
        if chosen is not None and not any(a is c_ for c_ in chosen):
            if n_h or (hint is not None and "__implicit_hydrogens" not in a.attrib):
                fails.append(Fail("atom-not-named-in-the-call-was-touched", f"{where}: {a.element.symbol} got {n_h} H / hint consumed although only {len(chosen)} other atom(s) were named"))
            continue
        cls_lab = f"neighbours={min(nb, 4)},H={exp}" + (",hint" if hint is not None else "")
        labels[cls_lab] = labels.get(cls_lab, 0) + 1
        if n_h != exp:
            kind = "hint" if hint is not None else "formula"
            fails.append(Fail(f"wrong-hydrogen-count:{kind}:neighbours={min(nb, 4)}:expected={exp}:got={n_h}",
                              f"{where}: {a.element.symbol} q={a.formal_charge} spin={a.formal_spin} bonded valence {bv0[id(a)]} ({nb} neighbours), hint {hint}: expected {exp} H, got {n_h}"))
            continue
        if hint is not None and "__implicit_hydrogens" in a.attrib:
            fails.append(Fail("hint-not-consumed", where))
        if not n_h:
            continue
        ci = m.atoms.index(a)
        cpos = m.coords[ci]
        L = (Element(z).cov_radius_1 or 0) + Element.H.cov_radius_1
        cent = None
        from molli.chem import AtomType as _AT
        geo_nb = [x for x in neigh0[id(a)] if x.atype != _AT.CoordinationCenter]
        if len(geo_nb) != nb:
            labels["centre_bonded_to_coordination_centre(direction_not_asserted)"] = labels.get("centre_bonded_to_coordination_centre(direction_not_asserted)", 0) + 1
        elif nb:
            cent = np.mean([m.coords[m.atoms.index(x)] for x in neigh0[id(a)]], axis=0)
        for h in got[id(a)]:
            hp = m.coords[m.atoms.index(h)]
            if not np.all(np.isfinite(hp)):
                fails.append(Fail(f"hydrogen-at-non-finite-coordinates:neighbours={min(nb, 4)}:H={n_h}", f"{where}: {a.element.symbol} with {nb} neighbours gets {n_h} H at {hp}"))
                break
            d = float(np.linalg.norm(hp - cpos))
            if abs(d - L) > 1e-3 * L:
                fails.append(Fail("hydrogen-distance-not-sum-of-covalent-radii", f"{where}: {a.element.symbol}-H {d:.5f} vs {L:.5f}"))
                break
            if cent is not None and np.linalg.norm(cent - cpos) > 1e-9:
                # pointing away from the centroid of the existing neighbours
                if float(np.dot(hp - cpos, cent - cpos)) > 0.05 * L * max(1.0, float(np.linalg.norm(cent - cpos))):
                    fails.append(Fail(f"hydrogen-points-towards-neighbours:neighbours={min(nb, 4)}:H={n_h}", f"{where}: {a.element.symbol}: (H-c).(centroid-c) = {float(np.dot(hp - cpos, cent - cpos)):.3f}"))
                    break
    # ---- idempotence on hint-free molecules
    if second_call and hint_free and chosen is None and not fails:
        n1 = m.n_atoms
        with warnings.catch_warnings():
            warnings.simplefilter("ignore")
            with np.errstate(all="ignore"):
                m.add_implicit_hydrogens()
        if m.n_atoms != n1:
            fails.append(Fail("second-call-adds-atoms", f"{where}: {m.n_atoms - n1} more"))
    return labels


def check_grown(r) -> list[Fail]:
    import molli as ml

    cls = ml.Molecule if r["cls"] == "Molecule" else ml.Structure
    m = build(r, cls)
    fails: list[Fail] = []
    held = None
    if r.get("wrapped") and m.n_atoms >= 2:
        # some of the molecule's Atom objects were handed, uncopied, to another container earlier (this re-parents the objects; the
        # molecule's own atom list, bonds and coordinates are untouched); the container is still alive (1) or gone again (2)
        import gc
        held = ml.Promolecule([m.atoms[i] for i in range(m.n_atoms - 1, max(-1, m.n_atoms - 4), -1)])
        if r["wrapped"] == 2:
            held = None
            gc.collect()
    labels = oracle(m, fails, f"grown[{r['orient']}]" + (" named-atoms-form" if r.get("subset") else ""), subset=r.get("subset"))
    tally(labels=labels)
    seen, out = set(), []
    for f in fails:
        if f.sig not in seen:
            seen.add(f.sig)
            out.append(f)
    return out


def classify_grown(r):
    spec, coords, bonds = grow(r)
    nb = {}
    for (i, j, bt) in bonds:
        nb[i] = nb.get(i, 0) + 1
        nb[j] = nb.get(j, 0) + 1
    nt = False
    for i, s in enumerate(spec):
        if s["el"] in GROUP:
            bv = sum((ORDER[bt] if ORDER[bt] is not None else 1.0) for (a, b, bt) in bonds if i in (a, b))
            e = s["hint"] if s["hint"] is not None else expected_h(s["el"], s["fc"], s["spin"], bv)
            if e > 0:
                nt = True
    return nt, ["cls=" + r["cls"], "orient=" + r["orient"], "call=" + ("named_atoms" if r.get("subset") else "all_atoms")]


def strat_grown(tier):
    node = st.fixed_dictionaries({
        "el": st.one_of(st.sampled_from(CENTRES), st.sampled_from(CENTRES), st.sampled_from(BYSTANDERS)),
        "fc": st.sampled_from([0, 0, 0, 1, -1]), "spin": st.sampled_from([0, 0, 0, 1, 2]),
        "hint": st.one_of(st.none(), st.none(), st.none(), st.integers(0, 3)),
        "bt": st.sampled_from([1, 1, 1, 2, 3, 20]), "tmpl": st.sampled_from(["tet", "tet", "tri"]), "nchild": st.integers(0, 3),
        "cc": st.sampled_from([False, False, False, False, True]),
    })
    root = st.fixed_dictionaries({
        "el": st.sampled_from(CENTRES), "fc": st.sampled_from([0, 0, 1, -1]), "spin": st.sampled_from([0, 0, 0, 1, 2]),
        "hint": st.one_of(st.none(), st.none(), st.integers(0, 4)), "tmpl": st.sampled_from(["tet", "tet", "tri"]),
        "nchild": st.sampled_from([0, 0, 1, 1, 2, 2, 3, 3, 4]),   # the target class is drawn first
    })
    return st.fixed_dictionaries({
        "cls": st.sampled_from(["Molecule", "Molecule", "Structure"]), "root": root, "nodes": st.lists(node, min_size=0, max_size=12),
        "gseed": st.integers(0, 10**6), "orient": st.sampled_from(["random", "random", "as_built", "first_bond_along_z"]),
        "wrapped": st.sampled_from([0, 0, 0, 1, 2]), "transmute": st.sampled_from([False, False, True]),
        "subset": st.one_of(st.none(), st.none(), st.tuples(st.integers(1, 2**16 - 1), st.booleans()).map(list)),
        "decl": st.one_of(st.none(), st.tuples(st.integers(-2, 2), st.integers(1, 4)).map(list)),
    })


# ---------------------------------------------------------------- cdxml fragments
def check_cdxml(r) -> list[Fail]:
    import molli as ml

    with warnings.catch_warnings():
        warnings.simplefilter("ignore")
        cdx = ml.CDXMLFile(getattr(ml.files, r["file"]))
        keys = list(cdx.keys())
    fails: list[Fail] = []
    labels = {}
    nt = []
    for k in keys:
        if r.get("only") is not None and k != r["only"]:
            continue
        with warnings.catch_warnings():
            warnings.simplefilter("ignore")
            m = cdx[k]
        sub: list[Fail] = []
        lab = oracle(m, sub, f"{r['file']}[{k!r}]", second_call=False)
        for kk, v in lab.items():
            labels[kk] = labels.get(kk, 0) + v
        if any(",H=0" not in kk for kk in lab):
            nt.append((r["file"], k))
        for f in sub:
            f.recipe = dict(r, only=k)
            fails.append(f)
    tally(units=max(0, len(keys) - 1), nontrivial_keys=nt, labels=labels)
    seen, out = set(), []
    for f in fails:
        if f.sig not in seen:
            seen.add(f.sig)
            out.append(f)
    return out


def enum_cdxml(tier, shard, nshards):
    files = ["BOX_4_position", "BOX_cores", "BOX_bridge", "charges_mult_cdxml", "parser_demo_cdxml", "parser_demo2_cdxml", "substituents_cdxml"]
    for i, f in enumerate(files):
        if i % nshards == shard:
            yield {"file": f}


LEGS = [
    Leg("grown", check_grown, classify_grown, strategy=strat_grown, n={"quick": 3000, "thorough": 60000}, shards={"quick": 16, "thorough": 32},
        rule="molecules grown from tetrahedral / trigonal templates with jitter: elements B,C,N,O,Si,P,S + halogen / metal / H / Unknown bystanders, formal charges -1..+1, radicals 0-2, bond types single/double/triple/aromatic, "
             "optional hints 0-4, 0-4 neighbours on the root (class drawn first), orientation random / as built / first bond exactly along z; Molecule and Structure; non-trivial = >=1 centre receives >=1 hydrogen; "
             "classes (neighbours x hydrogens) are reported in coverage.legs.grown.classes"),
    Leg("cdxml", check_cdxml, lambda r: (False, ["file=" + r["file"]]), enumerate=enum_cdxml, exhaustive=True, shards={"quick": 7, "thorough": 7},
        rule="EVERY labelled fragment of the 7 bundled CDXML files (hints from the parser); evaluations = fragments; non-trivial = fragment has a centre that receives hydrogens"),
]
