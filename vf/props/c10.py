"""C10 — damaged or truncated input is rejected, never returned as a partial molecule.

Corpus: bundled mol2 / xyz files + generated multi-molecule files whose molecules differ in atom
and bond counts.  Faults: every truncation at a line boundary and at every byte offset of the
last record (exhaustive per file), single / double line deletions and duplications, token
corruptions that make a token invalid for its field (deletion, insertion, non-numeric text in
numeric fields, unknown type names).  Oracle: the reader raises, or returns a list of molecules
each of which (a) has the atom / bond counts of ITS OWN header in the damaged text and (b) is
equal in content to the molecule at the same position of the undamaged file.  A 60 s alarm per
parse decides termination.
"""
from __future__ import annotations

import io
import os
import re
import signal

import numpy as np
from hypothesis import strategies as st

from vf import chem
from vf.core import Fail, Leg, HarnessError, tally, exc_sig

LEVEL = "fault_enumeration"
ASSUMPTIONS = [
    "fault model follows the property text: truncation, line deletion / duplication, token corruption that makes the token INVALID for its field; "
    "swapped lines, a digit turned into another digit, and changes to free-text fields (label, name, comment, substructure name, ids molli ignores) are undetectable by any reader and not generated",
    "truncation inside the final numeric token of the final line that leaves a shorter valid number is format-inherent (neither xyz nor mol2 has a terminator): known finding, counted and excluded",
]
MOL2_FILES = ["dendrobine_mol2", "pentane_confs_mol2", "dummy_mol2", "dmf_mol2", "benzene_mol2", "fxyl_mol2", "isornitrate_mol2", "hadd_test_mol2", "nanotube_mol2"]     # (zincdb_fda.mol2 is an empty file in this checkout: no corpus)
XYZ_FILES = ["dendrobine_xyz", "pentane_confs_xyz", "dummy_xyz"]


class _Timeout(Exception):
    pass


def _alarm(signum, frame):
    raise _Timeout()


def parse(fmt, text):
    """returns ("ok", [molecules]) | ("exc", exception) | ("hang", None)"""
    import molli as ml
    import warnings

    old = signal.signal(signal.SIGALRM, _alarm)
    signal.alarm(60)
    try:
        with warnings.catch_warnings():
            warnings.simplefilter("ignore")
            res = ml.Molecule.loads_all_mol2(text) if fmt == "mol2" else ml.Molecule.loads_all_xyz(text)
        return "ok", res
    except _Timeout:
        return "hang", None
    except Exception as e:
        return "exc", e
    finally:
        signal.alarm(0)
        signal.signal(signal.SIGALRM, old)


def parse_path(fmt, data: bytes):
    """the same readers, given the PATH of a file holding `data` (the damage may be below the text level: bytes that are no text)"""
    import molli as ml
    import tempfile
    import warnings

    fd, p = tempfile.mkstemp(suffix="." + fmt, dir=os.environ.get("VF_SCRATCH") or None)
    with os.fdopen(fd, "wb") as fh:
        fh.write(data)
    old = signal.signal(signal.SIGALRM, _alarm)
    signal.alarm(60)
    try:
        with warnings.catch_warnings():
            warnings.simplefilter("ignore")
            res = ml.Molecule.load_all_mol2(p) if fmt == "mol2" else ml.Molecule.load_all_xyz(p)
        return "ok", res
    except _Timeout:
        return "hang", None
    except Exception as e:
        return "exc", e
    finally:
        signal.alarm(0)
        signal.signal(signal.SIGALRM, old)
        try:
            os.unlink(p)
        except OSError:
            pass


def own_headers(fmt, text):
    """(n_atoms, n_bonds) declared by each molecule header of the (damaged) text, in order"""
    out = []
    lines = text.splitlines()
    if fmt == "mol2":
        stripped = [l.strip() for l in lines]
        i = 0
        while i < len(stripped):
            if stripped[i].startswith("@<TRIPOS>MOLECULE"):
                # the next line is the name (free text, may itself look like a record header)
                try:
                    nums = stripped[i + 2].split()
                    out.append((int(nums[0]), int(nums[1]) if len(nums) > 1 else None))
                except Exception:
                    out.append(None)
                i += 3
            else:
                i += 1
    else:
        i = 0
        while i < len(lines):
            if not lines[i]:
                break
            try:
                n = int(lines[i])
            except ValueError:
                out.append(None)
                break
            out.append((n, None))
            i += 2 + n
    return out


COUNTS_ONLY = ("endpoint",)     # damage that yields a well-formed file of ANOTHER molecule: only the counts clause is judged


def judge(fmt, orig_snaps, damaged, what, route="string") -> tuple[str, Fail | None]:
    if isinstance(damaged, bytes):
        st_, res = parse_path(fmt, damaged)
        damaged = damaged.decode("utf-8", errors="replace")     # (for the harness' own header scan: the bad byte makes its token invalid)
    elif route == "path":
        st_, res = parse_path(fmt, damaged.encode("utf-8"))
    else:
        st_, res = parse(fmt, damaged)
    if st_ == "hang":
        return "hang", Fail(f"{fmt}:reader-does-not-terminate:{what}", "no result within 60 s")
    if st_ == "exc":
        return "rejected", None
    hdr = own_headers(fmt, damaged)
    if len(res) > len(orig_snaps):
        return "bad", Fail(f"{fmt}:more-molecules-than-the-file-has:{what}", f"{len(res)} returned, original has {len(orig_snaps)}")
    for i, m in enumerate(res):
        if i >= len(hdr) or hdr[i] is None:
            return "bad", Fail(f"{fmt}:molecule-without-a-valid-header-returned:{what}", f"molecule {i}")
        na, nb = hdr[i]
        if m.n_atoms != na or (nb is not None and m.n_bonds != nb):
            return "bad", Fail(f"{fmt}:counts-differ-from-own-header:{what}", f"molecule {i}: header says {na} atoms / {nb} bonds, object has {m.n_atoms} / {m.n_bonds}")
        d = None if what in COUNTS_ONLY else chem.snap_diff(orig_snaps[i], chem.snapshot(m), skip=("name",) if fmt == "xyz" else ())
        if d is not None:
            return "bad", Fail(f"{fmt}:partial-or-altered-molecule-returned:{what}", f"molecule {i} of {len(res)} returned: {d}")
    return ("same" if len(res) == len(orig_snaps) else "prefix"), None


def _last_numeric_token_cut(text, cut):
    """True iff `cut` lies strictly inside the final whitespace-delimited token of the final
    non-blank line, that token is a number, and its remaining prefix is still a number."""
    body = text.rstrip()
    if cut >= len(body) or cut <= 0:
        return False
    m = re.search(r"(\S+)$", body)
    start = m.start(1)
    if cut <= start:
        return False
    tok, rest = m.group(1), body[start:cut]
    try:
        float(tok)
        float(rest)
        return True
    except ValueError:
        return False


def _numeric_tail_cut(text, cut):
    """generalisation for arbitrary cut points: the cut is strictly inside a numeric token that is the
    last token of its line, and what is left of the token is still a number (same format-inherent class)"""
    if cut <= 0 or cut >= len(text) or text[cut - 1].isspace() or text[cut].isspace():
        return False
    ls = text.rfind("\n", 0, cut) + 1
    le = text.find("\n", cut)
    le = len(text) if le < 0 else le
    line = text[ls:le]
    m = re.search(r"(\S+)\s*$", line)
    if not m or ls + m.start(1) >= cut:
        return False
    try:
        float(m.group(1))
        float(text[ls + m.start(1):cut])
        return True
    except ValueError:
        return False


# ---------------------------------------------------------------- corpus
def corpus_text(src):
    import molli as ml

    if "file" in src:
        return src["fmt"], open(getattr(ml.files, src["file"])).read()
    fmt = src["fmt"]
    # xyz: a comment line that is itself an integer turns "count line deleted" into another well-formed file
    mols = [chem.build_molecule(dict(r, name=("m_" + r["name"]) if fmt == "xyz" else r["name"]), ml.Molecule) for r in src["mols"]]
    texts = [getattr(m, "dumps_" + fmt)() for m in mols]
    if fmt == "mol2" and src.get("unity_last"):
        # another flavour: per-atom attributes (formal charges) in a UNITY_ATOM_ATTR block that comes AFTER the bonds, followed by a
        # record block molli does not implement - the attribute records announce their own number of lines
        texts = [t + "@<TRIPOS>UNITY_ATOM_ATTR\n1 1\ncharge 1\n" + (f"{m.n_atoms} 1\ncharge -1\n" if m.n_atoms > 1 else "")
                 + "@<TRIPOS>SUBSTRUCTURE\n     1 UNL1        1 TEMP              0 ****  ****    0 ROOT\n" for t, m in zip(texts, mols)]
    elif fmt == "mol2" and src.get("substructure"):
        # layout of OpenBabel / Chimera files: every molecule ends with a record block molli does not implement
        texts = [t + "@<TRIPOS>SUBSTRUCTURE\n     1 UNL1        1 TEMP              0 ****  ****    0 ROOT\n" for t in texts]
    return fmt, "".join(texts)


def _orig(fmt, text):
    st_, res = parse(fmt, text)
    if st_ != "ok" or not res:
        raise HarnessError(f"undamaged corpus text does not parse: {res!r}")
    return [chem.snapshot(m) for m in res]


# ---------------------------------------------------------------- truncation (exhaustive per file)
def check_trunc(recipe) -> list[Fail]:
    fmt, text = corpus_text(recipe["src"])
    snaps = _orig(fmt, text)
    fails: list[Fail] = []
    lines = text.splitlines(keepends=True)
    offs = [0]
    for l in lines:
        offs.append(offs[-1] + len(l))
    # last record = last molecule's text (mol2: from its MOLECULE header; xyz: its frame)
    if fmt == "mol2":
        idxs = [i for i, l in enumerate(lines) if l.strip().startswith("@<TRIPOS>MOLECULE")]
        last_start = offs[idxs[-1]]
    else:
        i, starts = 0, []
        while i < len(lines) and lines[i].strip():
            starts.append(i)
            i += 2 + int(lines[i])
        last_start = offs[starts[-1]]
    cuts = set(offs[1:-1])
    only = recipe.get("only_cut")
    if recipe.get("bytes", True):
        cuts |= set(range(last_start, len(text)))
    if only is not None:
        cuts = {only}
    n = n_nt = n_known = 0
    outcomes = {}
    keys = []
    # A cut at a LINE boundary where an uncounted, optional block (UNITY_ATOM_ATTR ...) of the molecule the file then ends in is about to begin, or has just
    # completed one of its records, leaves a well-formed file of a molecule that simply lacks those optional records: no reader can tell
    # (same class as whole-record deletions in such blocks).  Cuts inside a record of the block (the announced attribute lines are not all
    # there) and every cut inside a line stay asserted.
    optional_cuts = set()
    if fmt == "mol2":
        block, pending = None, 0
        for i, l in enumerate(lines):
            s_ = l.strip()
            if s_.startswith("@<TRIPOS>"):
                if s_[9:].startswith("UNITY_"):
                    optional_cuts.add(offs[i])          # cut right before the block's tag line
                    # ... or inside its name: "@<TRIPOS>U" reads as the tag of some unknown (skipped) block
                    optional_cuts.update(range(offs[i] + 9, offs[i + 1]))
                block, pending = s_[9:], 0
                if block.startswith("UNITY_"):
                    optional_cuts.add(offs[i + 1])      # the tag line alone: an empty optional block
            elif block and block.startswith("UNITY_") and s_:
                if pending == 0:
                    try:
                        pending = int(s_.split()[1])
                    except (IndexError, ValueError):
                        pending = 0
                else:
                    pending -= 1
                if pending == 0:
                    optional_cuts.add(offs[i + 1])      # a record of the block is complete here
    optional_lens = {len(text[:c_].rstrip()) for c_ in optional_cuts}
    for cut in sorted(cuts):
        damaged = text[:cut]
        if not damaged.strip():
            continue
        if damaged.rstrip() == text.rstrip():
            # only trailing white space / the final line terminator is gone: the SAME file as far as content goes - judged as such
            if damaged.endswith("\n") or damaged == text:
                continue
            n += 1
            kind_, f_ = judge(fmt, snaps, damaged, "last-line-without-terminator")
            outcomes[f"unterminated-last-line->{kind_}"] = outcomes.get(f"unterminated-last-line->{kind_}", 0) + 1
            if f_ is not None:
                f_.recipe = dict(recipe, only_cut=cut)
                f_.detail = f"the text without its final line terminator ({len(text) - cut} trailing character(s) cut): " + f_.detail
                fails.append(f_)
            continue
        if cut in optional_cuts or len(damaged.rstrip()) in optional_lens:
            outcomes["excluded:cut-at-a-record-boundary-of-an-optional-uncounted-block"] = outcomes.get("excluded:cut-at-a-record-boundary-of-an-optional-uncounted-block", 0) + 1
            continue
        n += 1
        if _last_numeric_token_cut(text, cut):
            n_known += 1
            st_, res = parse(fmt, damaged)
            outcomes["known:last-numeric-token-shortened"] = outcomes.get("known:last-numeric-token-shortened", 0) + 1
            if st_ == "ok" and len(res) == len(snaps) and chem.snap_diff(snaps[-1], chem.snapshot(res[-1]), skip=("name",)) is not None:
                fails.append(Fail(f"{fmt}:truncation-inside-last-numeric-token-accepted", f"cut at byte {cut} of {len(text)}: the file ends in {damaged[-12:]!r} instead of {text.rstrip()[-12:]!r} and parses",
                                  recipe=dict(recipe, only_cut=cut)))
            continue
        kind, f = judge(fmt, snaps, damaged, "truncation")
        outcomes[kind] = outcomes.get(kind, 0) + 1
        n_nt += 1
        keys.append((fmt, chem_hash(recipe["src"]), cut))
        if f is not None:
            f.detail = f"cut at byte {cut} of {len(text)} (line {sum(1 for o in offs if o <= cut)}): " + f.detail
            f.recipe = dict(recipe, only_cut=cut)
            fails.append(f)
    tally(units=max(0, n - 1), nontrivial_keys=keys, labels={f"outcome={k}": v for k, v in outcomes.items()} | {"excluded_known:last-numeric-token": n_known})
    return _dedup(fails)


def chem_hash(src):
    from vf.core import rhash

    return rhash(src)


def _dedup(fails):
    seen, out = set(), []
    for f in fails:
        if f.sig not in seen:
            seen.add(f.sig)
            out.append(f)
    return out


# ---------------------------------------------------------------- line / token faults
NUMERIC_BAD = ["x1y", "--", "1.2.3", "0x", "1e", "NaNo"]
INT_BAD = ["4.3", "1e1", "2.", ".5", "3.0"]      # numbers, but not integers: invalid in count / atom-id columns
TYPE_BAD = ["Qq", "Zz.3", "9", "Qq.ar"]   # unknown element; (unknown SUBTYPES of known elements are accepted by design)


def _fields(fmt, lines):
    """(line index, token index, field kind) of every token the reader interprets"""
    out = []
    if fmt == "xyz":
        i = 0
        while i < len(lines) and lines[i].strip():
            try:
                n = int(lines[i])
            except ValueError:
                break
            out.append((i, 0, "int"))
            for j in range(i + 2, min(len(lines), i + 2 + n)):
                out += [(j, 0, "symbol"), (j, 1, "num"), (j, 2, "num"), (j, 3, "num")]
            i += 2 + n
        return out
    block = None
    i = 0
    while i < len(lines):
        s = lines[i].strip()
        if s.startswith("@<TRIPOS>"):
            block = s[9:]
            if block == "MOLECULE":
                out += [(i + 2, 0, "count"), (i + 2, 1, "count")]
                i += 5
                continue
        elif s and not s.startswith("#"):
            if block == "ATOM":
                out += [(i, 2, "num"), (i, 3, "num"), (i, 4, "num"), (i, 5, "atype"), (i, 8, "charge"), (i, 0, "serial")]
            elif block == "BOND":
                out += [(i, 1, "bint"), (i, 2, "bint"), (i, 3, "btype"), (i, 0, "serial")]
        i += 1
    return out


_SYMS = []


def _element_symbols():
    if not _SYMS:
        import molli as ml

        _SYMS.extend(ml.Element.__members__.keys())
    return _SYMS


def uncounted_lines(fmt, lines):
    """indices of the lines that belong to record blocks WITHOUT a declared count (mol2 UNITY_ATOM_ATTR / UNITY_BOND_ATTR ...): removing
    one complete record (its head line and its attribute lines) from such a block leaves a well-formed file of another molecule, which no
    reader can tell from an undamaged one (like line swaps: outside the fault model); a single deleted line is always detectable"""
    out = set()
    if fmt != "mol2":
        return out
    block = None
    for i, ln in enumerate(lines):
        s_ = ln.strip()
        if s_.startswith("@<TRIPOS>"):
            block = s_[9:]
        elif block is not None and block.startswith("UNITY_"):
            out.add(i)
    return out


def apply_fault(fmt, text, fault):
    lines = text.splitlines()
    kind = fault[0]
    if kind == "del":
        ks = sorted({f % len(lines) for f in fault[1]}, reverse=True)
        if len(ks) > 1 and len(set(ks) & uncounted_lines(fmt, lines)) > 1:
            return None      # could remove a complete record of an uncounted block: undetectable by construction
        for k in ks:
            del lines[k]
    elif kind == "dup":
        ks = sorted({f % len(lines) for f in fault[1]}, reverse=True)
        if len(ks) > 1 and len(set(ks) & uncounted_lines(fmt, lines)) > 1:
            return None      # two duplicated lines of an uncounted block can add up to one complete extra record: undetectable as well
        for k in ks:
            lines.insert(k, lines[k])
    elif kind == "renumber":
        # the serial number of one ATOM / BOND record becomes a neighbouring, equally valid number (5 -> 4 or 6): either the reader
        # notices, or (it ignores the column) the molecule is the same as before - never another molecule
        fl = [f for f in _fields(fmt, lines) if f[0] < len(lines) and f[2] == "serial"]
        if not fl:
            return None
        li, ti, fk = fl[fault[1] % len(fl)]
        toks = lines[li].split()
        try:
            toks[0] = str(max(0, int(toks[0]) + (1 if fault[2] % 2 else -1)))
        except (ValueError, IndexError):
            return None
        lines[li] = " ".join(toks)
    elif kind == "tag_bad":
        # the TAG line of a counted record block (ATOM / BOND) is damaged: a letter lost, doubled or replaced
        # (a molecule may be NAMED "@<TRIPOS>ATOM": the line after the MOLECULE tag is free text, not a tag)
        tl = [i for i, l in enumerate(lines) if l.strip() in ("@<TRIPOS>ATOM", "@<TRIPOS>BOND") and not (i > 0 and lines[i - 1].strip() == "@<TRIPOS>MOLECULE")]
        if not tl:
            return None
        li = tl[fault[1] % len(tl)]
        t_ = lines[li].strip()
        lines[li] = [t_[:-1], t_ + "S", t_[:-2] + "Q" + t_[-1], t_[:9] + t_[10:]][fault[2] % 4]
    elif kind == "endpoint":
        # an endpoint of one BOND record becomes ANOTHER valid atom number: a well-formed file of another molecule - content is not
        # judged (COUNTS_ONLY), but whatever comes back still has the counts its own header declares
        fl = [f for f in _fields(fmt, lines) if f[0] < len(lines) and f[2] == "bint"]
        if not fl:
            return None
        li, ti, fk = fl[fault[1] % len(fl)]
        toks = lines[li].split()
        try:
            a, b = int(toks[1]), int(toks[2])
        except (ValueError, IndexError):
            return None
        # the atom count of the molecule this record belongs to
        na = None
        for j in range(li, -1, -1):
            if lines[j].strip().startswith("@<TRIPOS>MOLECULE"):
                try:
                    na = int(lines[j + 2].split()[0])
                except (ValueError, IndexError):
                    return None
                break
        if not na or na < 3:
            return None
        other = b if ti == 1 else a
        cand = [x for x in range(1, na + 1) if x not in (a, b)]
        toks[ti] = str(cand[fault[2] % len(cand)])
        lines[li] = " ".join(toks)
    elif kind in ("tok_bad", "tok_del", "tok_ins"):
        fl = [f for f in _fields(fmt, lines) if f[0] < len(lines) and f[2] != "serial"]
        if not fl:
            return None
        li, ti, fk = fl[fault[1] % len(fl)]
        toks = lines[li].split()
        if ti >= len(toks):
            return None
        if kind == "tok_ins" and fk in ("bint", "btype", "charge"):
            return None   # bond lines and the end of atom lines have optional trailing fields: an inserted token yields another well-formed line
        if kind == "tok_bad":
            bad = (TYPE_BAD if fk in ("atype", "btype", "symbol") else NUMERIC_BAD)[fault[2] % (len(TYPE_BAD) if fk in ("atype", "btype", "symbol") else len(NUMERIC_BAD))]
            if fk in ("bint", "count", "int") and fault[2] % 2:
                bad = INT_BAD[(fault[2] // 2) % len(INT_BAD)]
            if fk == "symbol" and len(toks[ti]) == 2 and fault[2] % 3 == 0:
                # a two-letter symbol whose LAST letter is damaged (Cl -> Cx): not an element, although its first letter is one
                cand = toks[ti][0] + "x"
                if cand.capitalize() not in _element_symbols():
                    bad = cand
            toks[ti] = bad
        elif kind == "tok_del":
            del toks[ti]
        else:
            toks.insert(ti, "7")
        lines[li] = " ".join(toks)
    else:
        raise HarnessError("bad fault")
    return "\n".join(lines) + "\n"


def check_faults(recipe) -> list[Fail]:
    fmt, text = corpus_text(recipe["src"])
    snaps = _orig(fmt, text)
    fails: list[Fail] = []
    n = 0
    keys, outcomes = [], {}
    route = recipe.get("route", "string")
    for fault in recipe["faults"]:
        if fault[0] == "byte_bad":
            # below the text level: one byte of a token is overwritten with a byte (sequence) that is not valid UTF-8 / ASCII; the file is read by path
            raw = text.encode("utf-8")
            pos = [i for i, b in enumerate(raw) if not chr(b).isspace()]
            at = pos[fault[1] % len(pos)]
            damaged = raw[:at] + [b"\xff", b"\x80", b"\xc3", b"\xfe"][fault[2] % 4] + raw[at + 1:]
            try:
                damaged.decode("utf-8")
                continue      # (inside a multi-byte character the new byte can complete ANOTHER character: still text, a substitution)
            except UnicodeDecodeError:
                pass
        else:
            damaged = apply_fault(fmt, text, fault)
            if damaged is None or damaged.split() == text.split():
                continue
        n += 1
        kind, f = judge(fmt, snaps, damaged, fault[0], route=route)
        if isinstance(damaged, bytes):
            damaged = damaged.decode("utf-8", errors="replace")
        outcomes[f"{fault[0]}->{kind}"] = outcomes.get(f"{fault[0]}->{kind}", 0) + 1
        if own_headers(fmt, damaged):
            keys.append((chem_hash(recipe["src"]), tuple(map(str, fault))))
        if f is not None:
            f.recipe = dict(recipe, faults=[fault])
            f.detail = f"fault {fault}: " + f.detail
            fails.append(f)
    tally(units=max(0, n - 1), nontrivial_keys=keys, labels=outcomes)
    return _dedup(fails)


# ---------------------------------------------------------------- generators
def _different_counts(rs):
    # molecules of one generated file differ in atom and bond counts
    seen = set()
    out = []
    for r in rs:
        k = (len(r["atoms"]), len(r["bonds"]))
        if k[0] >= 1 and k not in seen and not any(k[0] == s[0] or (k[1] == s[1]) for s in seen):
            seen.add(k)
            out.append(r)
    return out


def _clean(r):
    import math

    r = dict(r)
    r["coords"] = [[1.5 if (x != x or math.isinf(x)) else max(-9999.0, min(9999.0, x)) for x in c] for c in r["coords"]]
    return r


def _srcs(tier):
    molr = chem.molecule_recipe(max_atoms=7, max_bonds=9, attribs=False, mol2_safe=True, min_atoms=1).map(_clean)
    gen = st.lists(molr, min_size=2, max_size=5).map(_different_counts).filter(lambda l: len(l) >= 2)
    return st.one_of(
        st.fixed_dictionaries({"fmt": st.just("mol2"), "mols": gen, "substructure": st.booleans(), "unity_last": st.sampled_from([False, False, True])}),
        st.fixed_dictionaries({"fmt": st.just("xyz"), "mols": gen}),
        st.sampled_from([{"fmt": "mol2", "file": f} for f in MOL2_FILES[:4] + ["isornitrate_mol2", "isornitrate_mol2"]] + [{"fmt": "xyz", "file": f} for f in XYZ_FILES]),
    )


def strat_faults(tier):
    i = st.integers(0, 10**6)
    fault = st.one_of(
        st.tuples(st.just("del"), st.lists(i, min_size=1, max_size=2)).map(list),
        st.tuples(st.just("dup"), st.lists(i, min_size=1, max_size=2)).map(list),
        st.tuples(st.sampled_from(["tok_bad", "tok_bad", "tok_del", "tok_ins", "renumber", "byte_bad", "endpoint", "tag_bad"]), i, i).map(list),
    )
    return st.fixed_dictionaries({"src": _srcs(tier), "route": st.sampled_from(["string", "string", "path"]), "faults": st.lists(fault, min_size=8, max_size=20)})


def strat_trunc(tier):
    return st.fixed_dictionaries({"src": _srcs(tier).filter(lambda s: "file" not in s), "bytes": st.just(True)})


def enum_trunc(tier, shard, nshards):
    files = [{"fmt": "mol2", "file": f} for f in (MOL2_FILES if tier != "quick" else MOL2_FILES[:7])] + [{"fmt": "xyz", "file": f} for f in XYZ_FILES]
    for i, s in enumerate(files):
        if i % nshards == shard:
            yield {"src": s, "bytes": True}


def check_fuzz(recipe) -> list[Fail]:
    """coverage-guided campaign (atheris / libFuzzer) over (corpus file, fault sequence); same oracle"""
    import json
    import shutil
    import subprocess
    import sys
    import tempfile

    d = tempfile.mkdtemp(prefix="fz", dir=os.environ["VF_SCRATCH"])
    try:
        out = os.path.join(d, "violation.json")
        corpus = os.path.join(d, "corpus")
        os.makedirs(corpus)
        if recipe.get("seeded_corpus"):
            for i in range(8):
                with open(os.path.join(corpus, f"s{i}"), "wb") as f:
                    f.write(bytes([i, 1, 1 + i % 5, i * 7 % 256, 3, 0, 9]))
        cmd = [sys.executable, "-m", "vf.fuzz_c10", out, f"-runs={recipe['runs']}", f"-seed={recipe['seed']}", f"-artifact_prefix={d}/", "-max_len=64", "-timeout=120", corpus]
        try:
            p = subprocess.run(cmd, capture_output=True, text=True, timeout=recipe.get("budget_s", 1500), env=dict(os.environ))
        except subprocess.TimeoutExpired:
            raise HarnessError("fuzz campaign exceeded its wall-clock budget (inconclusive)")
        err = p.stderr
        m = re.findall(r"stat::number_of_executed_units:\s*(\d+)", err) or re.findall(r"Done (\d+) runs", err)
        runs = int(m[-1]) if m else 0
        cov = re.findall(r"cov: (\d+)", err)
        tally(units=max(0, runs - 1), nontrivial_keys=[("fuzz", recipe["seed"], recipe.get("seeded_corpus", False), i) for i in range(runs // 50)],
              labels={"fuzz_executions": runs, "fuzz_final_cov": int(cov[-1]) if cov else 0})
        if os.path.exists(out):
            v = json.load(open(out))
            return [Fail("fuzz:" + v["sig"], v["detail"] + f" | faults {v['faults']}", recipe={"src": v["src"], "faults": v["faults"], "via": "fuzz"})]
        if p.returncode != 0:
            if "import atheris" in err or "No module named 'atheris'" in err:
                raise HarnessError("atheris is not installed (run setup.sh)")
            raise HarnessError("fuzz target failed without an oracle violation: " + err[-600:])
        return []
    finally:
        shutil.rmtree(d, ignore_errors=True)


def enum_fuzz(tier, shard, nshards):
    seed = int(os.environ.get("VERIF_SEED", "1"))
    n = 4 if tier == "quick" else 16
    for i in range(n):
        if i % nshards == shard:
            yield {"runs": 4000 if tier == "quick" else 150000, "seed": seed * 100 + i + 1, "seeded_corpus": bool(i % 2), "budget_s": 300 if tier == "quick" else 3000}


def classify(recipe):
    if "runs" in recipe:
        return False, ["fuzz_campaign", "corpus=" + ("seeded" if recipe.get("seeded_corpus") else "empty")]
    s = recipe["src"]
    return False, ["fmt=" + s["fmt"], "corpus=" + ("bundled" if "file" in s else "generated")] + (["with_unimplemented_record_blocks"] if s.get("substructure") else []) + (["UNITY_ATOM_ATTR_after_the_bonds"] if s.get("unity_last") else [])


LEGS = [
    Leg("fuzz", check_fuzz, classify, enumerate=enum_fuzz, shards={"quick": 4, "thorough": 16},
        rule="atheris/libFuzzer coverage-guided campaigns (molli.parsing + chem readers instrumented): input bytes are decoded into (corpus file, 1-3 faults of one kind: arbitrary byte cuts, line deletions, line duplications, invalid / deleted / inserted tokens), the oracle of the other legs runs inside the target; "
             "4 x 4 000 executions (quick) / 16 x 150 000 (thorough), half from an empty corpus and half from 8 seed inputs; evaluations = executions; libFuzzer -seed pins a campaign only approximately"),
    Leg("trunc_bundled", check_trunc, classify, enumerate=enum_trunc, exhaustive=True, shards={"quick": 10, "thorough": 12},
        rule="bundled mol2 / xyz files: EVERY truncation at a line boundary and at every byte offset of the last record; evaluations = damaged texts parsed; "
             "non-trivial = damaged text differs from the original inside a record; the known class (cut inside the final numeric token leaving a valid number) is excluded and counted"),
    Leg("trunc_gen", check_trunc, classify, strategy=strat_trunc, n={"quick": 150, "thorough": 3000}, shards={"quick": 16, "thorough": 32},
        rule="generated multi-molecule files (2-5 molecules that differ in atom and bond counts), same exhaustive truncation per file"),
    Leg("faults", check_faults, classify, strategy=strat_faults, n={"quick": 400, "thorough": 10000}, shards={"quick": 16, "thorough": 32},
        rule="per file 8-20 random faults: single/double line deletion or duplication, token made invalid for its field (non-numeric text in numeric fields, unknown type names), token deletion / insertion, a record's serial number changed to a neighbouring one, the last letter of a two-letter element symbol damaged, one byte of a token overwritten by a byte that is not text (file read by path), a bond endpoint changed to another valid atom number (only the counts clause is judged), the tag line of an ATOM / BOND block damaged; a third of the files go through the path readers; "
             "non-trivial = at least one molecule header survives in the damaged text"),
]
