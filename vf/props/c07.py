"""C07 — mol2 written by molli reads back as the same molecule.

Legs
  vocab  exhaustive: every Element x AtomType x AtomGeom as a one-atom molecule and every BondType
         on a two-atom molecule: reader accepts the emitted token, element recovered, text fixed point
  rand   generated Molecule / Structure / ConformerEnsemble objects: field-by-field round trip at
         the written precision + text fixed point + all loader entry points
"""
from __future__ import annotations

import io
import math

import numpy as np
from hypothesis import strategies as st

from vf import chem
from vf.core import Fail, Leg, HarnessError, tally

LEVEL = "exploration"
ASSUMPTIONS = [
    "labels are whitespace-free (any other printable characters incl. '#' and '@'), names are one stripped non-empty line",
    "mol2 cannot express isotopes, formal charges, stereo flags, attributes or bond orders 4-6: not compared",
    "first-cycle atom/bond type information loss is allowed; acceptance, element, and the second-cycle text fixed point are required",
    "|coordinate| < 1e5 so that the fixed-width field keeps 6 decimals",
]
EXPRESSIBLE = {1, 2, 3, 20, 21, 10, 11, 0}   # Single Double Triple Aromatic Amide Dummy NotConnected Unknown


def _close(a, b, tol):
    if a != a or b != b:
        return a != a and b != b
    if math.isinf(a) or math.isinf(b):
        return a == b
    return abs(a - b) <= tol + 4 * np.spacing(abs(a))


def compare(obj, back, kind, fails, where):
    """obj: what was written; back: what was read"""
    if back.name != obj.name:
        fails.append(Fail(f"{kind}:name-differs", f"{where}: {obj.name!r} -> {back.name!r}"))
        return
    if back.n_atoms != obj.n_atoms:
        fails.append(Fail(f"{kind}:atom-count-differs", f"{where}: {obj.n_atoms} -> {back.n_atoms}"))
        return
    for i, (a, b) in enumerate(zip(obj.atoms, back.atoms)):
        if int(a.element) != int(b.element):
            fails.append(Fail(f"{kind}:element-differs", f"{where}: atom {i} {a.element!r} ({a.get_mol2_type()!r}) -> {b.element!r}"))
            return
        if a.label and b.label != a.label:
            fails.append(Fail(f"{kind}:label-differs", f"{where}: atom {i} {a.label!r} -> {b.label!r}"))
            return
    co, cb = np.asarray(obj.coords, dtype=float), np.asarray(back.coords, dtype=float)
    if co.shape != cb.shape:
        fails.append(Fail(f"{kind}:coords-shape-differs", f"{where}: {co.shape} -> {cb.shape}"))
        return
    for x, y in zip(co.ravel(), cb.ravel()):
        if not _close(float(x), float(y), 5e-7):
            fails.append(Fail(f"{kind}:coordinate-differs", f"{where}: {x!r} -> {y!r}"))
            return
    if hasattr(obj, "atomic_charges") and hasattr(back, "atomic_charges"):
        for x, y in zip(np.asarray(obj.atomic_charges, dtype=float).ravel(), np.asarray(back.atomic_charges, dtype=float).ravel()):
            if not _close(float(x), float(y), 5e-4):
                fails.append(Fail(f"{kind}:partial-charge-differs", f"{where}: {x!r} -> {y!r}"))
                return
    if back.n_bonds != obj.n_bonds:
        fails.append(Fail(f"{kind}:bond-count-differs", f"{where}: {obj.n_bonds} -> {back.n_bonds}"))
        return
    io_, ib = {id(a): i for i, a in enumerate(obj.atoms)}, {id(a): i for i, a in enumerate(back.atoms)}
    for k, (x, y) in enumerate(zip(obj.bonds, back.bonds)):
        if (io_[id(x.a1)], io_[id(x.a2)]) != (ib[id(y.a1)], ib[id(y.a2)]):
            fails.append(Fail(f"{kind}:bond-endpoints-differ", f"{where}: bond {k} {(io_[id(x.a1)], io_[id(x.a2)])} -> {(ib[id(y.a1)], ib[id(y.a2)])}"))
            return
        if int(x.btype) in EXPRESSIBLE and int(y.btype) != int(x.btype):
            fails.append(Fail(f"{kind}:bond-type-differs", f"{where}: bond {k} {x.btype!r} -> {y.btype!r}"))
            return


def roundtrip(obj, cls, kind, fails, entry="loads"):
    from vf.core import exc_sig

    try:
        t1 = obj.dumps_mol2()
    except Exception as e:
        fails.append(Fail(f"{kind}:write-raises:{exc_sig(e) or type(e).__name__}", repr(e)[:200]))
        return None
    try:
        if entry == "loads":
            back = cls.loads_mol2(t1)
        elif entry == "loads_all":
            res = cls.loads_all_mol2(t1)
            if not isinstance(res, list) or len(res) != 1:
                fails.append(Fail(f"{kind}:loads_all-count", f"{len(res)} objects"))
                return None
            back = res[0]
        elif entry == "load_stream":
            back = cls.load_mol2(io.StringIO(t1))
        else:
            raise HarnessError("bad entry")
    except HarnessError:
        raise
    except Exception as e:
        fails.append(Fail(f"{kind}:reader-rejects-own-output:{exc_sig(e) or type(e).__name__}", f"{e!r}; text:\n{t1[:400]}"))
        return None
    compare(obj, back, kind, fails, entry)
    if fails:
        return None
    try:
        t2 = back.dumps_mol2()
    except Exception as e:
        fails.append(Fail(f"{kind}:second-write-raises:{exc_sig(e) or type(e).__name__}", repr(e)[:200]))
        return None
    if t2 != t1:
        l1, l2 = t1.splitlines(), t2.splitlines()
        dl = next(((a, b) for a, b in zip(l1, l2) if a != b), (f"{len(l1)} lines", f"{len(l2)} lines"))
        sect = "atom-type" if _field_diff(dl) == 5 else "charge" if _field_diff(dl) == 8 else "bond" if len(dl[0].split()) == 4 else "other"
        fails.append(Fail(f"{kind}:text-not-a-fixed-point:{sect}", f"first differing line:\n  1st write: {dl[0]!r}\n  2nd write: {dl[1]!r}"))
        return None
    return back


def _field_diff(dl):
    a, b = dl[0].split(), dl[1].split()
    if len(a) != len(b):
        return -1
    for i, (x, y) in enumerate(zip(a, b)):
        if x != y:
            return i
    return -1


def check_rand(recipe) -> list[Fail]:
    import molli as ml

    fails: list[Fail] = []
    kind = recipe["kind"]
    r = recipe["mol"]
    if kind in ("Molecule", "Structure"):
        cls = getattr(ml, kind)
        obj = chem.build_molecule(r, cls)
        if recipe.get("foreign") and obj.n_atoms:
            # history of the object: it was itself READ from a mol2 file of another program's flavour (other molecule / charge type in
            # the header, e.g. NO_CHARGES with a zero charge column), and got its partial charges assigned afterwards
            mt, ct = [("SMALL", "NO_CHARGES"), ("PROTEIN", "GASTEIGER"), ("BIOPOLYMER", "NO_CHARGES"), ("SMALL", "MMFF94_CHARGES")][recipe["foreign"] % 4]
            t0 = obj.dumps_mol2().replace("\nSMALL\nUSER_CHARGES\n", f"\n{mt}\n{ct}\n", 1)
            try:
                o2 = cls.loads_mol2(t0)
            except Exception:
                o2 = None        # (whether such a header is accepted is not the point here)
            if o2 is not None and o2.n_atoms == obj.n_atoms:
                if hasattr(obj, "atomic_charges"):
                    o2.atomic_charges = np.asarray(obj.atomic_charges)
                o2.name = obj.name
                obj = o2
        roundtrip(obj, cls, kind, fails, recipe.get("entry", "loads"))
        if not fails and recipe.get("again") and obj.n_atoms:
            # the same object, edited in place, written again: the text must follow the current state
            from molli.chem import BondType
            with np.errstate(all="ignore"):
                obj.coords = np.where(np.isfinite(obj.coords), np.asarray(obj.coords) * 0.5 + 0.25, obj.coords)
            obj.atoms[0].label = "EDT"
            obj.name = "edited"
            if obj.n_bonds:
                obj.bonds[0].btype = BondType.Double if obj.bonds[0].btype != BondType.Double else BondType.Single
            if hasattr(obj, "atomic_charges"):
                obj.atomic_charges = np.asarray(obj.atomic_charges) * 0 + 0.125
            if obj.n_atoms >= 2 and recipe.get("swap", True):
                # ... and one atom is replaced by another (the FIRST atom goes, a new one is added at the end and bonded): the numbers
                # of atoms is what it was, every later atom has moved up one place
                from molli.chem import Atom
                obj.del_atom(obj.atoms[0])
                na_ = Atom(element=9, label="NEW")
                if hasattr(obj, "atomic_charges"):
                    obj.add_atom(na_, [1.5, 2.5, 3.5], 0.25)
                else:
                    obj.add_atom(na_, [1.5, 2.5, 3.5])
                obj.connect(na_, obj.atoms[0])
            n0 = len(fails)
            roundtrip(obj, cls, kind, fails, recipe.get("entry", "loads"))
            for f_ in fails[n0:]:
                f_.sig += ":second-write-after-in-place-edit"
        if kind == "Structure" and not fails:
            # dump_mol2(stream) must agree with dumps_mol2()
            s = io.StringIO()
            obj.dump_mol2(s)
            if s.getvalue() != obj.dumps_mol2():
                fails.append(Fail("Structure:dump-vs-dumps-differ", ""))
    elif kind == "Substructure":
        # a view over a subset of the atoms, in an order of its own: what is written is the VIEW
        parent = chem.build_molecule(r, ml.Molecule)
        n = parent.n_atoms
        idx = list(dict.fromkeys(i % n for i in recipe["sub"])) if n else []
        if not idx:
            return []
        sub = ml.chem.Substructure(parent, idx)
        exp = ml.Structure([a.evolve() for a in sub.atoms], name="unknown", coords=np.array(parent.coords[idx]))
        pos = {id(a): k for k, a in enumerate(sub.atoms)}
        for b in sub.bonds:
            exp.connect(pos[id(b.a1)], pos[id(b.a2)], btype=b.btype)
        from vf.core import exc_sig
        try:
            t1 = sub.dumps_mol2()
            back = ml.Structure.loads_mol2(t1)
        except Exception as e:
            return [Fail(f"Substructure:roundtrip-raises:{exc_sig(e) or type(e).__name__}", f"view {idx} of {n} atoms: {e!r}"[:300])]
        compare(exp, back, "Substructure", fails, f"view {idx} of {n} atoms")
        if not fails and back.dumps_mol2() != t1:
            fails.append(Fail("Substructure:text-not-a-fixed-point", ""))
    elif kind == "ConformerEnsemble":
        ens = chem.build_ensemble(r)
        if ens.n_conformers < 1:
            raise HarnessError("ensemble legs need >= 1 conformer")
        from vf.core import exc_sig

        try:
            t1 = ens.dumps_mol2()
            back = ml.ConformerEnsemble.loads_mol2(t1)
        except Exception as e:
            return [Fail(f"ConformerEnsemble:roundtrip-raises:{exc_sig(e) or type(e).__name__}", repr(e)[:300])]
        if back.n_conformers != ens.n_conformers:
            return [Fail("ConformerEnsemble:conformer-count-differs", f"{ens.n_conformers} -> {back.n_conformers}")]
        for i in range(ens.n_conformers):
            compare(ens[i], back[i], "ConformerEnsemble", fails, f"conformer {i}")
            if fails:
                return fails
        # the block parser itself, ALL blocks collected before any is looked at (list(read_mol2(f)))
        from molli.parsing import read_mol2
        blocks = list(read_mol2(io.StringIO(t1)))
        if len(blocks) != ens.n_conformers:
            return [Fail("ConformerEnsemble:parser-block-count", f"{len(blocks)} blocks for {ens.n_conformers} conformers")]
        for i, b_ in enumerate(blocks):
            if len(b_.atoms) != ens.n_atoms or len(b_.bonds) != ens.n_bonds:
                return [Fail("ConformerEnsemble:collected-parser-block-differs:counts", f"block {i}: {len(b_.atoms)} atoms / {len(b_.bonds)} bonds for {ens.n_atoms} / {ens.n_bonds}")]
            for j, a_ in enumerate(b_.atoms):
                want = ens.coords[i][j]
                if any(np.isfinite(w_) and abs(float(g_) - float(w_)) > 6e-5 for g_, w_ in zip(a_.xyz, want)):
                    return [Fail("ConformerEnsemble:collected-parser-block-differs:coordinates", f"block {i} atom {j}: {a_.xyz} vs {want}")]
        mols = ml.Molecule.loads_all_mol2(t1)
        if len(mols) != ens.n_conformers:
            return [Fail("ConformerEnsemble:loads_all-count", f"{len(mols)} molecules for {ens.n_conformers} conformers")]
        for i, m in enumerate(mols):
            compare(ens[i], m, "ConformerEnsemble", fails, f"loads_all molecule {i}")
            if fails:
                return fails
        t2 = back.dumps_mol2()
        if t2 != t1:
            l1, l2 = t1.splitlines(), t2.splitlines()
            dl = next(((a, b) for a, b in zip(l1, l2) if a != b), ("", ""))
            fails.append(Fail("ConformerEnsemble:text-not-a-fixed-point", f"{dl[0]!r} vs {dl[1]!r}"))
    else:
        raise HarnessError("bad kind")
    return fails


def classify_rand(recipe):
    r = recipe["mol"]
    labels = ["kind=" + recipe["kind"], "entry=" + recipe.get("entry", "loads")]
    if recipe["kind"] == "Substructure":
        n_ = len(r["atoms"])
        idx_ = list(dict.fromkeys(i % n_ for i in recipe["sub"])) if n_ else []
        inside = sum(1 for b in r["bonds"] if b["a"] in idx_ and b["b"] in idx_)
        # non-trivial: the view has a bond and is not simply the leading atoms of the parent in parent order
        return len(idx_) >= 2 and inside >= 1 and idx_ != list(range(len(idx_))), labels
    nt = len(r["atoms"]) >= 2 and len(r["bonds"]) >= 1 and (
        any(a["atype"] != 1 or a["geom"] != 0 for a in r["atoms"]) or any(b["btype"] != 1 for b in r["bonds"]) or any(q != 0 for q in r["charges"]))
    if any(x != x for c in r["coords"] for x in c):
        labels.append("nan_coord")
    if len(r["atoms"]) == 0:
        labels.append("zero_atoms")
    if any(not a["label"] for a in r["atoms"]):
        labels.append("empty_label")
    return nt, labels


def _mol2ify(r):
    r = dict(r)

    def cl(x):
        if x != x:
            return x
        if math.isinf(x):
            return 99999.5 if x > 0 else -99999.5
        return max(-99999.0, min(99999.0, x))

    r["coords"] = [[cl(x) for x in c] for c in r["coords"]]
    if "confs" in r:
        r["confs"] = [[[cl(x) for x in c] for c in cf] for cf in r["confs"]]
    return r


def strat_rand(tier):
    big = tier != "quick"
    molr = chem.molecule_recipe(max_atoms=30 if big else 12, max_bonds=40 if big else 16, attribs=False, mol2_safe=True).map(_mol2ify)
    ensr = chem.ensemble_recipe(max_atoms=8, max_bonds=10, max_conf=4, attribs=False, mol2_safe=True).filter(lambda r: len(r["confs"]) >= 1).map(_mol2ify)
    return st.one_of(
        st.fixed_dictionaries({"kind": st.just("Substructure"), "mol": molr, "sub": st.lists(st.integers(0, 60), min_size=1, max_size=8)}),
        st.fixed_dictionaries({"kind": st.sampled_from(["Molecule", "Molecule", "Structure"]), "mol": molr, "entry": st.sampled_from(["loads", "loads", "loads_all", "load_stream"]), "again": st.booleans(), "foreign": st.sampled_from([0, 0, 1, 2, 3, 4])}),
        st.fixed_dictionaries({"kind": st.just("ConformerEnsemble"), "mol": ensr}),
    )


# ---------------------------------------------------------------- exhaustive vocabulary
def check_vocab(recipe) -> list[Fail]:
    import molli as ml
    from molli.chem import Atom, AtomType, AtomGeom, BondType, Element

    fails: list[Fail] = []
    e = chem.enums()
    if recipe["what"] == "atoms":
        z = recipe["z"]
        n = 0
        keys = []
        for at in e["atype"]:
            for ge in e["ageom"]:
                n += 1
                m = ml.Molecule([Atom(element=z, atype=AtomType(at), geom=AtomGeom(ge))], name="v", coords=np.array([[0.5, -1.25, 2.0]]))
                token = m.atoms[0].get_mol2_type()
                keys.append((z, at, ge))
                sub: list[Fail] = []
                roundtrip(m, ml.Molecule, "vocab", sub)
                for f in sub:
                    sfx = token.split(".", 1)[1] if "." in token else "<plain>"
                    fails.append(Fail(f"{f.sig}:token-suffix={sfx if not token.startswith('Du.') else 'Du'}", f"element {z} atype {AtomType(at).name} geom {AtomGeom(ge).name} token {token!r}: {f.detail}",
                                      recipe={"what": "atom", "z": z, "atype": at, "geom": ge}))
        tally(units=n - 1, nontrivial_keys=keys)
    elif recipe["what"] == "atom":
        m = ml.Molecule([Atom(element=recipe["z"], atype=AtomType(recipe["atype"]), geom=AtomGeom(recipe["geom"]))], name="v", coords=np.array([[0.5, -1.25, 2.0]]))
        roundtrip(m, ml.Molecule, "vocab", fails)
        token = m.atoms[0].get_mol2_type()
        sfx = token.split(".", 1)[1] if "." in token else "<plain>"
        fails = [Fail(f"{f.sig}:token-suffix={sfx if not token.startswith('Du.') else 'Du'}", f.detail) for f in fails]
    elif recipe["what"] == "bonds":
        keys = []
        for bt in e["btype"]:
            for cls in (ml.Molecule, ml.Structure):
                m = cls([Atom("C"), Atom("N")], name="b", coords=np.array([[0.0, 0.0, 0.0], [1.3, 0.0, 0.0]]))
                m.connect(0, 1, btype=BondType(bt))
                keys.append(("bond", bt, cls.__name__))
                sub = []
                roundtrip(m, cls, "vocab-bond", sub)
                for f in sub:
                    fails.append(Fail(f.sig, f"{cls.__name__} bond type {BondType(bt).name}: {f.detail}"))
        tally(units=len(keys) - 1, nontrivial_keys=keys)
    else:
        raise HarnessError("bad vocab recipe")
    seen, out = set(), []
    for f in fails:
        if f.sig not in seen:
            seen.add(f.sig)
            out.append(f)
    return out


def enum_vocab(tier, shard, nshards):
    e = chem.enums()
    cases = [{"what": "atoms", "z": z} for z in e["element"]] + [{"what": "bonds"}]
    for i, c in enumerate(cases):
        if i % nshards == shard:
            yield c


def check_big(r) -> list[Fail]:
    """texts beyond the 1 MiB / 4 MiB marks (block-wise readers, buffer sizes): an ensemble of many conformers of a bundled molecule"""
    import molli as ml

    m = ml.Molecule.load_mol2(getattr(ml.files, r["file"]))
    nc = r["n_conf"]
    coords = np.array([np.asarray(m.coords) + 0.001 * k for k in range(nc)])
    ens = ml.ConformerEnsemble(m, n_conformers=nc, coords=coords, atomic_charges=np.array([np.asarray(m.atomic_charges)] * nc))
    text = ens.dumps_mol2()
    tally(labels={"text_MiB": round(len(text) / 2**20, 2)})
    fails: list[Fail] = []
    try:
        back = ml.ConformerEnsemble.loads_mol2(text)
        mols = ml.Molecule.loads_all_mol2(text)
    except Exception as e:
        from vf.core import exc_sig
        return [Fail(f"big:roundtrip-raises:{exc_sig(e) or type(e).__name__}", f"{len(text)} characters, {nc} conformers: {e!r}"[:300])]
    if back.n_conformers != nc or len(mols) != nc:
        return [Fail("big:conformer-count-differs", f"{nc} -> {back.n_conformers} / {len(mols)} ({len(text)} characters)")]
    if not np.allclose(back.coords, coords, atol=6e-5, rtol=0):
        k = int(np.argmax(np.max(np.abs(back.coords - coords), axis=(1, 2))))
        fails.append(Fail("big:coordinates-differ", f"conformer {k} of {nc}: max dev {np.max(np.abs(back.coords[k] - coords[k])):.3e}"))
    for k in (0, nc // 2, nc - 1):
        if [int(a.element) for a in mols[k].atoms] != [int(a.element) for a in m.atoms] or mols[k].n_bonds != m.n_bonds:
            fails.append(Fail("big:molecule-differs", f"molecule {k} of {nc}"))
            break
    return fails


def enum_big(tier, shard, nshards):
    cases = [{"file": "dendrobine_mol2", "n_conf": 450}] + ([{"file": "dendrobine_mol2", "n_conf": 1500}, {"file": "fxyl_mol2", "n_conf": 900}] if tier != "quick" else [])
    for i, c in enumerate(cases):
        if i % nshards == shard:
            yield c


LEGS = [
    Leg("vocab", check_vocab, lambda r: (False, ["what=" + r["what"]]), enumerate=enum_vocab, exhaustive=True, shards={"quick": 32, "thorough": 32},
        rule="every member of Element x AtomType x AtomGeom enumerated from the tree (119 x 21 x 18 = 44 982 on this tree) as a one-atom Molecule, every BondType on a two-atom Molecule and Structure: "
             "write, read (must be accepted), element equal, second write textually equal; evaluations = combinations; each distinct combination counts as non-trivial"),
    Leg("big", check_big, lambda r: (True, ["file=" + r["file"], f"n_conf={r['n_conf']}"]), enumerate=enum_big, shards={"quick": 1, "thorough": 3},
        rule="mol2 texts beyond 1 MiB (thorough: 4 MiB): 450-1500 conformers of a bundled molecule written as one ensemble, read back as ensemble and as a molecule list; conformer count, every coordinate, sampled constitution"),
    Leg("rand", check_rand, classify_rand, strategy=strat_rand, n={"quick": 2500, "thorough": 50000}, shards={"quick": 16, "thorough": 32},
        rule="generated Molecule / Structure / Substructure view (subset of the atoms in its own order) / ConformerEnsemble (>=1 conformer), whitespace-free labels or None/'', all enum members, |x|<1e5 plus NaN, charges |q|<=3, all bond types; "
             "entry points loads / loads_all / load(stream) / ConformerEnsemble.loads_mol2; non-trivial = >=2 atoms, >=1 bond and a non-default atom/bond type or non-zero charge"),
]
