"""C19 — distance kernels and grid descriptors equal their mathematical definition.

Legs
  kernels   the 16 registered kernel names of the shipped molli_xt through Python: shapes 0..40 x 1..6, float32 / float64,
            C-contiguous / Fortran / transposed view / strided / negative stride  vs. a float64 numpy reference
  grid      rectangular_grid: full lattice, spacing, containment, centring, point count
  nearest   nearest_atom_index for ensembles and single geometries with the cut-off PASSED
  prune     prune(): nothing farther than the cut-off kept, nothing closer than cut-off/(1+eps) dropped
  fields    aso / aeif vs. the definition by van der Waals spheres (points in the float32 rounding band of a sphere surface excluded, counted)
  native    molli_xt/distance.cpp FROM THE WORKING TREE compiled by clang++ (ASan+UBSan, libFuzzer) against a header shim
            (pybind11 is not installed): every registered name runs on fuzz-generated shapes / values, oracle inside the target
"""
from __future__ import annotations

import math
import os
import re
import shutil
import subprocess

import numpy as np
from hypothesis import strategies as st

from vf.core import Fail, Leg, HarnessError, tally, exc_sig

LEVEL = "exploration"
ASSUMPTIONS = [
    "last dimension is 3 (the documented (M,3) contract; the kernels do not check it)",
    "the shipped molli_xt*.so cannot be rebuilt here (pybind11 absent): its Python-level dispatch is tested as shipped; the kernels of the working tree are tested through the header shim",
    "float32 tolerance 2e-5 relative, float64 tolerance 1e-12 relative",
]
NAMES22 = ["cdist22_eu", "cdist22_eu2", "cdist22f_eu", "cdist22d_eu", "cdist22f_eu2", "cdist22d_eu2"]
NAMES32 = ["cdist32_eu", "cdist32_eu2", "cdist32f_eu", "cdist32d_eu", "cdist32f_eu2", "cdist32d_eu2"]
LAYOUTS = ["C", "F", "transposed", "strided", "negstride"]


def _layout(a, how):
    """returns an array with the same values and the requested memory layout"""
    if how == "C":
        return np.ascontiguousarray(a)
    if how == "F":
        return np.asfortranarray(a)
    if how == "transposed":
        t = np.ascontiguousarray(np.swapaxes(a, -1, -2))
        return np.swapaxes(t, -1, -2)
    if how == "strided":
        big = np.zeros(a.shape[:-1] + (a.shape[-1] * 2,), dtype=a.dtype)
        big[..., ::2] = a
        return big[..., ::2]
    if how == "negstride":
        return np.ascontiguousarray(a[..., ::-1, :])[..., ::-1, :] if a.ndim >= 2 else a
    raise HarnessError("bad layout")


def check_kernels(r) -> list[Fail]:
    import molli_xt

    rng = np.random.default_rng(r["seed"])
    L1, L2, X = r["L1"], r["L2"], r["X"]
    scale = r["scale"]
    dt = np.float32 if r["dtype"] == "f4" else np.float64
    fails: list[Fail] = []
    registered = [n for n in NAMES22 + NAMES32 if hasattr(molli_xt, n)]
    missing = [n for n in NAMES22 + NAMES32 if not hasattr(molli_xt, n)]
    if missing:
        return [Fail("kernel-name-not-registered", f"{missing}")]
    name = (NAMES22 + NAMES32)[r["name"] % 12]
    is32 = name.startswith("cdist32")
    a = (rng.normal(size=((X, L1, 3) if is32 else (L1, 3))) * scale).astype(dt)
    b = (rng.normal(size=(L2, 3)) * scale + r["shift"]).astype(dt)
    la, lb = _layout(a, r["layout_a"]), _layout(b, r["layout_b"])
    try:
        got = getattr(molli_xt, name)(la, lb)
    except Exception as e:
        return [Fail(f"kernel-raises:{type(e).__name__}", f"{name}({la.shape} {la.dtype} {r['layout_a']}, {lb.shape} {lb.dtype} {r['layout_b']}): {e!r}"[:300])]
    a64, b64 = a.astype(np.float64), b.astype(np.float64)
    ref = np.sum((a64[..., :, None, :] - b64[None, :, :]) ** 2, axis=-1)
    if not name.endswith("eu2"):
        ref = np.sqrt(ref)
    exp_shape = (X, L1, L2) if is32 else (L1, L2)
    where = f"{name}({la.shape} {la.dtype} {r['layout_a']}, {lb.shape} {lb.dtype} {r['layout_b']})"
    if got.shape != exp_shape:
        return [Fail("kernel-output-shape-wrong", f"{where}: {got.shape} vs {exp_shape}")]
    # expected working precision: explicit f/d names fix it; generic names follow the input width
    if "f_" in name:
        prec = "f4"
    elif "d_" in name:
        prec = "f8"
    else:
        prec = r["dtype"]
    tol = 2e-5 if prec == "f4" else 1e-12
    if got.size:
        err = np.abs(got.astype(np.float64) - ref) / np.maximum(1.0, np.abs(ref))
        if not np.all(np.isfinite(got)) or float(err.max()) > tol:
            contig = r["layout_a"] == "C" and r["layout_b"] == "C"
            cls = "float64-input-computed-in-float32" if (prec == "f8" and got.dtype == np.float32) else "values-differ"
            fails.append(Fail(f"kernel-wrong:{cls}:{'generic' if prec == r['dtype'] and '_eu' in name and name[7] == '_' else 'explicit'}-name:{'contiguous' if contig else 'non-contiguous'}",
                              f"{where}: max relative error {float(err.max()):.3e} (tolerance {tol}), result dtype {got.dtype}"))
    if prec == "f8" and got.dtype != np.float64 and not fails:
        fails.append(Fail("kernel-wrong:float64-input-computed-in-float32:generic-name:" + ("contiguous" if r["layout_a"] == "C" and r["layout_b"] == "C" else "non-contiguous"), f"{where}: result dtype {got.dtype}"))
    return fails


def classify_kernels(r):
    name = (NAMES22 + NAMES32)[r["name"] % 12]
    nt = r["L1"] >= 1 and r["L2"] >= 1
    return nt, ["name=" + name, "dtype=" + r["dtype"], "layout_a=" + r["layout_a"], "layout_b=" + r["layout_b"]] + (["empty"] if not nt else [])


def strat_kernels(tier):
    return st.fixed_dictionaries({
        "name": st.integers(0, 11), "L1": st.one_of(st.integers(0, 6), st.integers(0, 40)), "L2": st.one_of(st.integers(0, 6), st.integers(0, 40)), "X": st.integers(1, 6),
        "dtype": st.sampled_from(["f4", "f8"]), "layout_a": st.sampled_from(LAYOUTS), "layout_b": st.sampled_from(LAYOUTS),
        "scale": st.sampled_from([1.0, 10.0, 0.01, 300.0]), "shift": st.sampled_from([0.0, 5.0, -100.0]), "seed": st.integers(0, 10**6),
    })


# ---------------------------------------------------------------- rectangular_grid
def check_grid(r) -> list[Fail]:
    from molli.descriptor.gridbased import rectangular_grid

    r1 = np.array(r["lo"], dtype=float)
    ext = np.array(r["ext"], dtype=float)
    s = r["spacing"]
    if r["exact_multiple"]:
        ext = np.round(ext / s) * s
    r2 = r1 + ext
    pad = r["padding"]
    try:
        dt = r.get("dtype")
        g = rectangular_grid(r1, r2, padding=pad, spacing=s, **({} if dt is None else {"dtype": dt}))
        if g.dtype != np.dtype(dt or "float32"):
            return [Fail("grid-dtype-wrong", f"asked {dt or 'default float32'}, got {g.dtype}")]
    except Exception as e:
        return [Fail(f"grid-raises:{exc_sig(e) or type(e).__name__}", f"r1={r1} r2={r2} pad={pad} spacing={s}: {e!r}"[:300])]
    fails: list[Fail] = []
    where = f"r1={r1.tolist()} r2={r2.tolist()} padding={pad} spacing={s}"
    if g.ndim != 2 or g.shape[1] != 3:
        return [Fail("grid-shape-wrong", f"{where}: {g.shape}")]
    g64 = g.astype(np.float64)
    lo, hi = r1 - pad, r2 + pad
    mag = float(max(1.0, np.max(np.abs(lo)), np.max(np.abs(hi))))
    e32 = (6e-7 if g.dtype == np.float32 else 1e-15) * mag * 8
    axes = [np.unique(g64[:, k]) for k in range(3)]
    ns = [len(a) for a in axes]
    if ns[0] * ns[1] * ns[2] != len(g):
        fails.append(Fail("grid-not-a-full-lattice", f"{where}: {len(g)} points, unique per axis {ns}"))
    if len({tuple(p) for p in g.tolist()}) != len(g):
        fails.append(Fail("grid-has-duplicate-points", where))
    for k in range(3):
        a = axes[k]
        L = float(hi[k] - lo[k])
        if len(a) > 1:
            d = np.diff(a)
            if np.max(np.abs(d - s)) > e32 + 1e-6 * s:
                fails.append(Fail("grid-spacing-wrong", f"{where}: axis {k} steps {d.min():.6g}..{d.max():.6g}"))
        if a[0] < lo[k] - e32 or a[-1] > hi[k] + e32:
            fails.append(Fail("grid-outside-padded-box", f"{where}: axis {k} spans [{a[0]}, {a[-1]}], box [{lo[k]}, {hi[k]}]"))
        if abs((a[0] - lo[k]) - (hi[k] - a[-1])) > 2 * e32:
            fails.append(Fail("grid-not-centred", f"{where}: axis {k} margins {a[0] - lo[k]:.6g} / {hi[k] - a[-1]:.6g}"))
        delta = 1e-5 * max(1.0, L / s) + e32 / s
        n_lo, n_hi = math.floor(L / s - delta) + 1, math.floor(L / s + delta) + 1
        if not (n_lo <= len(a) <= n_hi):
            fails.append(Fail("grid-point-count-wrong", f"{where}: axis {k} has {len(a)} points, expected {n_lo}..{n_hi} (extent {L}, spacing {s})"))
    seen, out = set(), []
    for f in fails:
        if f.sig not in seen:
            seen.add(f.sig)
            out.append(f)
    return out


def strat_grid(tier):
    f = st.floats(-20, 20, width=32)
    return st.fixed_dictionaries({
        "lo": st.lists(f, min_size=3, max_size=3), "ext": st.lists(st.one_of(st.floats(0, 12, width=32), st.sampled_from([0.0, 1.0, 2.5])), min_size=3, max_size=3),
        "padding": st.sampled_from([0.0, 0.5, 2.0, 1.25]), "spacing": st.sampled_from([1.0, 0.5, 0.7, 2.0, 30.0, 0.25]), "exact_multiple": st.booleans(),
        "dtype": st.sampled_from([None, None, "float32", "float64"]),
    })


# ---------------------------------------------------------------- nearest / prune / fields
def _ens(r):
    import molli as ml

    rng = np.random.default_rng(r["seed"])
    n, nc = r["n_atoms"], r["n_conf"]
    if r.get("many_conf"):
        # conformer-search output: dozens to hundreds of conformers of a small molecule (kept small so that the float64 reference fits)
        n, nc = min(n, 5), r["many_conf"]
    els = [int(x) for x in rng.choice([1, 6, 7, 8, 9, 15, 16, 17, 35, 14, 11, 19], size=n)]     # (Si, Na, K: van der Waals radii above 2 Angstrom)
    base = rng.normal(size=(n, 3)) * r["spread"]
    coords = np.array([base + rng.normal(size=(n, 3)) * 0.3 for _ in range(nc)])
    w = rng.uniform(0.1, 2.0, size=nc)
    if r.get("zero_w") and nc >= 2:
        # Boltzmann weights of high-energy conformers underflow to exactly 0: still conformers (they count in the unweighted average)
        zero = [c for c in range(nc) if (r["zero_w"] >> c) & 1]
        if 0 < len(zero) < nc:
            w[zero] = 0.0
    ens = ml.ConformerEnsemble(els, n_conformers=nc, coords=coords, weights=w, atomic_charges=rng.normal(size=(nc, n)))
    return ens


def _grid(r, ens):
    from molli.descriptor.gridbased import rectangular_grid

    c = np.vstack(ens.coords)
    return rectangular_grid(c.min(axis=0), c.max(axis=0), padding=r["gpad"], spacing=max(r["gspacing"], 1.5) if r.get("many_conf") else r["gspacing"])


def check_nearest(r) -> list[Fail]:
    import molli as ml
    from molli.descriptor.gridbased import nearest_atom_index, prune

    if r.get("huge"):
        # a structure with tens of thousands of atoms (a solvated system, a nanoparticle): atom numbers beyond 32767
        rng_ = np.random.default_rng(r["seed"])
        nat = [33000, 40000, 66000][r["huge"] % 3]
        big = ml.CartesianGeometry(["C"] * nat, coords=rng_.uniform(-40, 40, size=(nat, 3)))
        pts = rng_.uniform(-40, 40, size=(60, 3)).astype(np.float32)
        idx_ = np.asarray(nearest_atom_index(pts, big, max_dist=r["cut"] + 3.0))
        d_ = np.linalg.norm(pts.astype(np.float64)[:, None, :] - np.asarray(big.coords, dtype=float)[None, :, :], axis=-1)
        want_ = np.where(d_.min(axis=1) <= r["cut"] + 3.0, d_.argmin(axis=1), -1)
        band_ = np.abs(d_.min(axis=1) - (r["cut"] + 3.0)) < 1e-4
        srt_ = np.sort(d_, axis=1)
        tie_ = (srt_[:, 1] - srt_[:, 0]) < 1e-5
        bad_ = [p_ for p_ in range(len(pts)) if not band_[p_] and not tie_[p_] and int(idx_[p_]) != int(want_[p_])]
        if bad_:
            return [Fail("nearest:huge-structure:wrong-atom", f"{nat} atoms: point {bad_[0]} got atom {int(idx_[bad_[0]])}, closest is {int(want_[bad_[0]])}; {len(bad_)} of {len(pts)} points wrong")]
        return []
    ens = _ens(r)
    grid = _grid(r, ens)
    cut = r["cut"]
    fails: list[Fail] = []
    g64 = grid.astype(np.float64)

    def verify(idx, coords, what):
        d = np.linalg.norm(g64[:, None, :] - coords[None, :, :], axis=-1)
        dmin = d.min(axis=1)
        for p in range(len(g64)):
            i = int(idx[p])
            if i == -1:
                if dmin[p] < cut * (1 - 1e-9):
                    fails.append(Fail(f"nearest:{what}:atom-within-cutoff-reported-as-none", f"cut-off {cut}: point {p} is {dmin[p]:.4f} from an atom but gets -1"))
                    return
            else:
                if not (0 <= i < coords.shape[0]):
                    fails.append(Fail(f"nearest:{what}:index-out-of-range", f"{i}"))
                    return
                if d[p, i] > cut * (1 + 1e-9):
                    fails.append(Fail(f"nearest:{what}:atom-beyond-cutoff-reported", f"cut-off {cut}: point {p} gets atom {i} at distance {d[p, i]:.4f}"))
                    return
                if d[p, i] > dmin[p] * (1 + 1e-9) + 1e-12:
                    fails.append(Fail(f"nearest:{what}:not-the-closest-atom", f"point {p}: atom {i} at {d[p, i]:.6f}, closest is at {dmin[p]:.6f}"))
                    return

    m = None
    try:
      for phase in ("", ":after-in-place-move")[: 2 if r.get("moved", True) else 1]:
        if phase:
            # the SAME objects, moved in place, asked again: answers must follow the current coordinates
            ens.translate(np.array([0.9, -1.3, 0.4]) * r["spread"] / 1.5)
            m.coords = np.asarray(m.coords) @ np.array([[0.0, -1.0, 0.0], [1.0, 0.0, 0.0], [0.0, 0.0, 1.0]]) + np.array([-0.7, 0.2, 1.1])
            n_before = len(fails)
        res = nearest_atom_index(grid, ens, max_dist=cut)
        if res.shape != (ens.n_conformers, len(grid)):
            fails.append(Fail("nearest:ensemble:shape-wrong", f"{res.shape}"))
        else:
            for c in range(ens.n_conformers):
                verify(res[c], np.asarray(ens.coords[c], dtype=float), "ensemble")
        if m is None:
            m = ml.Molecule(ens[0])
        res1 = nearest_atom_index(grid, m, max_dist=cut)
        if np.shape(res1) != (len(grid),):
            fails.append(Fail("nearest:single:shape-wrong", f"{np.shape(res1)}"))
        else:
            verify(res1, np.asarray(m.coords, dtype=float), "single")
        # prune
        eps = r["eps"]
        for obj, allc, what in ((ens, np.vstack(ens.coords).astype(float), "ensemble"), (m, np.asarray(m.coords, dtype=float), "single")):
            kept = set(int(x) for x in prune(grid, obj, max_dist=cut, eps=eps))
            dmin = np.linalg.norm(g64[:, None, :] - allc[None, :, :], axis=-1).min(axis=1)
            far = [p for p in kept if dmin[p] > cut * (1 + 1e-9)]
            if far:
                fails.append(Fail(f"prune:{what}:kept-point-farther-than-cutoff", f"cut-off {cut} eps {eps}: point {far[0]} at {dmin[far[0]]:.4f}"))
            dropped = [p for p in range(len(grid)) if p not in kept and dmin[p] < cut / (1 + eps) * (1 - 1e-9)]
            if dropped:
                fails.append(Fail(f"prune:{what}:dropped-point-closer-than-cutoff/(1+eps)", f"cut-off {cut} eps {eps}: point {dropped[0]} at {dmin[dropped[0]]:.4f} < {cut / (1 + eps):.4f}"))
        if phase:
            for f_ in fails[n_before:]:
                f_.sig += phase
        if fails:
            break
    except Exception as e:
        s = exc_sig(e)
        if s is None:
            raise
        fails.append(Fail(f"nearest-or-prune-raises:{s}", repr(e)[:300]))
    return fails


def classify_nearest(r):
    return r["n_atoms"] >= 2, [f"cut={r['cut']}", f"n_conf={r['n_conf']}", f"grid_spacing={r['gspacing']}"]


def check_fields(r) -> list[Fail]:
    from molli.descriptor.gridbased import aso, aeif
    import molli as ml

    ens = _ens(r)
    grid = _grid(r, ens)
    if r.get("isomer_first") and ens.n_atoms >= 2:
        # history of the process: an ensemble with the SAME composition but its atoms listed in the opposite order was evaluated before
        rev = list(range(ens.n_atoms))[::-1]
        iso_ = ml.ConformerEnsemble([int(a.element) for a in ens.atoms][::-1], n_conformers=ens.n_conformers, coords=np.asarray(ens.coords)[:, rev, :],
                                    weights=np.asarray(ens.weights), atomic_charges=np.asarray(ens.atomic_charges)[:, rev])
        aso(iso_, grid[: min(5, len(grid))])
        aeif(iso_, grid[: min(5, len(grid))])
    gk = r.get("grid_kind", 0)
    if gk == 1:
        grid = grid.astype(np.float64)                       # a double-precision grid (rectangular_grid(dtype="float64"), user-made arrays)
    elif gk == 2:
        grid = np.unique(np.round(grid).astype(np.int64), axis=0)     # an integer lattice (np.mgrid / np.indices output)
    fails: list[Fail] = []
    g64 = grid.astype(np.float64)
    nc, n = ens.n_conformers, ens.n_atoms
    radii = np.array([a.vdw_radius for a in ens.atoms], dtype=float)
    if np.any(~np.isfinite(radii)):
        raise HarnessError("element without vdW radius")
    coords = np.asarray(ens.coords, dtype=float)
    d2 = np.sum((coords[:, :, None, :] - g64[None, None, :, :]) ** 2, axis=-1)     # (nc, n, G)
    mag2 = max(1.0, float(np.max(np.abs(coords))) ** 2, float(np.max(np.abs(g64))) ** 2)
    band = np.abs(d2 - (radii ** 2)[None, :, None]) <= 3e-6 * np.maximum(mag2, d2)
    excl = band.any(axis=(0, 1))                                                   # points near ANY sphere surface in ANY conformer
    inside = (d2 <= (radii ** 2)[None, :, None]).any(axis=1)                        # (nc, G)
    w = np.asarray(ens.weights, dtype=float)
    weighted = r["weighted"]
    try:
        got = np.asarray(aso(ens, grid, weighted=weighted), dtype=float)
    except Exception as e:
        s = exc_sig(e)
        if s is None:
            raise
        return [Fail(f"aso-raises:{s}", repr(e)[:300])]
    ref = np.average(inside.astype(float), axis=0, weights=w if weighted else None)
    ok = ~excl
    n_in, n_out = int((ref[ok] > 0).sum()), int((ref[ok] == 0).sum())
    if got.shape != ref.shape:
        fails.append(Fail("aso:shape-wrong", f"{got.shape} vs {ref.shape}"))
    elif ok.any() and np.max(np.abs(got[ok] - ref[ok])) > 1e-6:
        p = int(np.argmax(np.abs(got - ref) * ok))
        fails.append(Fail("aso:value-differs-from-definition" + (":weighted" if weighted else ""), f"point {p}: {got[p]:.6f} vs {ref[p]:.6f} ({nc} conformers, weights {w.round(3).tolist()})"))
    if r.get("memfault") and not fails:
        # the big (conformers x atoms x grid points) distance array cannot be allocated: the kernel raises MemoryError on its first call.
        # Either that error reaches the caller, or - if the descriptor copes in some other way - the field is still the defined one
        import molli.descriptor.gridbased as gb

        real_xt = gb.molli_xt

        class _XT:
            def __init__(self):
                self.raised = False

            def __getattr__(self, nm):
                fn = getattr(real_xt, nm)
                if nm.startswith("cdist32") and not self.raised:
                    def boom(*a, **k):
                        self.raised = True
                        raise MemoryError("injected: cannot allocate the distance array")
                    return boom
                return fn

        gb.molli_xt = _XT()
        try:
            got_f = np.asarray(aso(ens, grid, weighted=weighted), dtype=float)
        except MemoryError:
            got_f = None
        except Exception as e:
            s = exc_sig(e)
            if s is None:
                raise
            got_f = None
            fails.append(Fail(f"aso-raises-after-allocation-failure:{s}", repr(e)[:300]))
        finally:
            gb.molli_xt = real_xt
        if got_f is not None and (got_f.shape != ref.shape or (ok.any() and np.max(np.abs(got_f[ok] - ref[ok])) > 1e-6)):
            fails.append(Fail("aso:value-differs-from-definition:after-allocation-failure", f"{int((np.abs(got_f - ref) * ok > 1e-6).sum()) if got_f.shape == ref.shape else '?'} of {int(ok.sum())} points differ"))
    # aeif: charge of the nearest atom if the point is inside any sphere
    d = np.sqrt(d2)
    order = np.sort(d, axis=1)
    tie = (order[:, 1, :] - order[:, 0, :] < 1e-6 * np.maximum(1.0, order[:, 0, :])).any(axis=0) if n >= 2 else np.zeros(len(g64), dtype=bool)
    near = np.argmin(d, axis=1)                                                     # (nc, G)
    q = np.asarray(ens.atomic_charges, dtype=float)
    val = np.where(inside, np.take_along_axis(q, near, axis=1), 0.0)
    ref2 = np.average(val, axis=0, weights=w if weighted else None)
    try:
        got2 = np.asarray(aeif(ens, grid, weighted=weighted), dtype=float)
    except Exception as e:
        s = exc_sig(e)
        if s is None:
            raise
        return fails + [Fail(f"aeif-raises:{s}", repr(e)[:300])]
    ok2 = ok & ~tie
    if got2.shape != ref2.shape:
        fails.append(Fail("aeif:shape-wrong", f"{got2.shape} vs {ref2.shape}"))
    elif ok2.any() and np.max(np.abs(got2[ok2] - ref2[ok2])) > 1e-6:
        p = int(np.argmax(np.abs(got2 - ref2) * ok2))
        fails.append(Fail("aeif:value-differs-from-definition" + (":weighted" if weighted else ""), f"point {p}: {got2[p]:.6f} vs {ref2[p]:.6f}"))
    # ---- the caller supplies the nearest-atom table (as scripts/gbca.py does) and re-uses it for a second call
    if not fails:
        from molli.descriptor.gridbased import nearest_atom_index

        cut = r["cut"]
        table = nearest_atom_index(grid, ens, max_dist=cut)
        table0 = table.copy()
        dmin = d.min(axis=1)                                                        # (nc, G)
        near_ok = dmin <= cut
        edge = (np.abs(dmin - cut) <= 1e-9 * max(1.0, cut)).any(axis=0)
        val3 = np.where(inside & near_ok, np.take_along_axis(q, near, axis=1), 0.0)
        for call, wt in enumerate((weighted, not weighted, weighted)):
            ref3 = np.average(val3, axis=0, weights=w if wt else None)
            try:
                got3 = np.asarray(aeif(ens, grid, nearest_atom_idx=table, weighted=wt), dtype=float)
            except Exception as e:
                s = exc_sig(e)
                if s is None:
                    raise
                fails.append(Fail(f"aeif-with-table-raises:{s}", repr(e)[:300]))
                break
            ok3 = ok2 & ~edge
            if ok3.any() and np.max(np.abs(got3[ok3] - ref3[ok3])) > 1e-6:
                p = int(np.argmax(np.abs(got3 - ref3) * ok3))
                fails.append(Fail("aeif:supplied-table:value-differs-from-definition:" + ("first-call" if call == 0 else "repeated-call"), f"call {call} (cut-off {cut}): point {p}: {got3[p]:.6f} vs {ref3[p]:.6f}"))
                break
            if not np.array_equal(table, table0):
                fails.append(Fail("aeif:callers-nearest-atom-table-modified", f"after call {call}: {int((table != table0).sum())} entries changed"))
                break
    tally(labels={"grid_points": len(g64), "points_excluded_near_a_sphere_surface": int(excl.sum()), "points_inside": n_in, "points_outside": n_out})
    return fails


def classify_fields(r):
    return r["n_atoms"] >= 2, ["weighted" if r["weighted"] else "unweighted", f"n_conf={r.get('many_conf') or r['n_conf']}", "some_weights_exactly_zero" if (r.get("zero_w") and r["n_conf"] >= 2) else "all_weights_positive", "grid=" + ["float32", "float32", "float64", "int64_lattice"][r.get("grid_kind", 0) if r.get("grid_kind", 0) != 0 else 0]]


def strat_desc(tier):
    return st.fixed_dictionaries({
        "seed": st.integers(0, 10**6), "n_atoms": st.one_of(st.integers(2, 12), st.integers(2, 40)), "n_conf": st.integers(1, 4), "spread": st.sampled_from([1.5, 3.0, 6.0]),
        "gpad": st.sampled_from([0.0, 1.0, 3.0]), "gspacing": st.sampled_from([1.0, 0.7, 1.5, 2.5, 4.0]), "cut": st.sampled_from([2.0, 1.0, 3.5, 0.5]), "eps": st.sampled_from([0.5, 0.0, 0.1, 1.0]),
        "weighted": st.booleans(), "grid_kind": st.sampled_from([0, 0, 1, 2]), "zero_w": st.sampled_from([0, 0, 1, 2, 5, 6]), "memfault": st.sampled_from([False, False, True]), "many_conf": st.sampled_from([0, 0, 0, 0, 70, 130, 257]),
        "huge": st.sampled_from([0] * 24 + [1, 2, 3]), "isomer_first": st.booleans(),
    })


# ---------------------------------------------------------------- native leg (shim + libFuzzer)
HOME = os.path.dirname(os.path.dirname(os.path.dirname(os.path.abspath(__file__))))


def build_native(out_dir, fuzz=True):
    repo = os.environ.get("VERIF_REPO", "/repo")
    src = os.path.join(repo, "molli_xt", "distance.cpp")
    exe = os.path.join(out_dir, "fuzz_distance")
    cmd = ["clang++", "-std=c++17", "-O1", "-g", "-fno-omit-frame-pointer", "-fsanitize=address,undefined" + (",fuzzer" if fuzz else ""), "-fno-sanitize-recover=undefined",
           "-I", os.path.join(HOME, "shim"), "-I", os.path.join(repo, "molli_xt"), src, os.path.join(HOME, "fuzz", "fuzz_distance.cpp"), "-o", exe]
    p = subprocess.run(cmd, capture_output=True, text=True, timeout=600)
    if p.returncode != 0:
        raise HarnessError("cannot build the native target:\n" + p.stderr[-1500:])
    return exe


def check_native(r) -> list[Fail]:
    import tempfile

    d = tempfile.mkdtemp(prefix="c19n", dir=os.environ["VF_SCRATCH"])
    try:
        exe = build_native(d)
        corpus = os.path.join(d, "corpus")
        os.makedirs(corpus)
        env = dict(os.environ, ASAN_OPTIONS="detect_leaks=0:abort_on_error=0", UBSAN_OPTIONS="print_stacktrace=1")
        p = subprocess.run([exe, f"-runs={r['runs']}", f"-seed={r['seed']}", "-max_len=512", f"-artifact_prefix={d}/", corpus], capture_output=True, text=True, timeout=r.get("budget_s", 1200), env=env)
        err = p.stderr
        m = re.findall(r"stat::number_of_executed_units:\s*(\d+)", err) or re.findall(r"Done (\d+) runs", err)
        runs = int(m[-1]) if m else 0
        names = re.findall(r"REGISTERED (\S+)", err + p.stdout)
        tally(units=max(0, runs - 1), nontrivial_keys=[("native", r["seed"], i) for i in range(runs // 100)], labels={"native_executions": runs, "registered_names": len(set(names))})
        if p.returncode != 0:
            msg = re.findall(r"ORACLE-VIOLATION[^\n]*", err)
            if msg:
                kind = msg[0].split("kind=")[1].split()[0] if "kind=" in msg[0] else "mismatch"
                return [Fail(f"native:{kind}", msg[0][:400])]
            san = re.findall(r"(ERROR: AddressSanitizer: [^\n]*|runtime error: [^\n]*)", err)
            if san:
                return [Fail("native:sanitizer:" + san[0].split(":")[1].strip().split(" ")[0] if "Sanitizer" in san[0] else "native:ub", san[0][:300])]
            raise HarnessError("native target failed: " + err[-800:])
        return []
    finally:
        shutil.rmtree(d, ignore_errors=True)


def enum_native(tier, shard, nshards):
    seed = int(os.environ.get("VERIF_SEED", "1"))
    n = 2 if tier == "quick" else 8
    for i in range(n):
        if i % nshards == shard:
            yield {"runs": 20000 if tier == "quick" else 2000000, "seed": seed * 10 + i + 1, "budget_s": 600 if tier == "quick" else 3000}


LEGS = [
    Leg("kernels", check_kernels, classify_kernels, strategy=strat_kernels, n={"quick": 4000, "thorough": 80000}, shards={"quick": 16, "thorough": 32},
        rule="12 kernel names (generic, f and d variants of cdist22/cdist32 eu/eu2) of the shipped extension x float32/float64 x 5 memory layouts per argument x shapes 0..40 / 1..6 x 4 scales; non-trivial = both point sets non-empty"),
    Leg("grid", check_grid, lambda r: (True, ["exact_multiple" if r["exact_multiple"] else "general", f"spacing={r['spacing']}", f"dtype={r.get('dtype')}"]), strategy=strat_grid, n={"quick": 1500, "thorough": 30000}, shards={"quick": 16, "thorough": 32},
        rule="boxes with r1<=r2 (extent 0..12 per axis, incl. 0 and exact multiples of the spacing), padding in {0,0.5,1.25,2}, spacing in {0.25,0.5,0.7,1,2,30}"),
    Leg("nearest_prune", check_nearest, classify_nearest, strategy=strat_desc, n={"quick": 500, "thorough": 10000}, shards={"quick": 16, "thorough": 32},
        rule="random ensembles (2-12 atoms, 1-4 conformers) and grids around them, cut-offs {0.5,1,2,3.5}, eps {0,0.1,0.5,1}; nearest_atom_index for the ensemble and for a single geometry with the cut-off passed; prune for both"),
    Leg("fields", check_fields, classify_fields, strategy=strat_desc, n={"quick": 500, "thorough": 10000}, shards={"quick": 16, "thorough": 32},
        rule="aso and aeif (weighted / unweighted; aeif also with a caller-supplied nearest-atom table built with cut-offs {0.5,1,2,3.5} and re-used for three calls) vs. the vdW-sphere definition in float64; points within the float32 rounding band of any sphere surface, and nearest-atom ties, are excluded and counted"),
    Leg("native", check_native, lambda r: (False, ["native_campaign"]), enumerate=enum_native, shards={"quick": 2, "thorough": 8},
        rule="molli_xt/distance.cpp of the working tree compiled with clang++ -fsanitize=address,undefined,fuzzer against /verif/shim (pybind11 stand-in); each input decodes to (registered kernel name, shapes, float width, values) and the result is compared with naive loops inside the target; "
             "2 x 20 000 (quick) / 8 x 2 000 000 (thorough) executions"),
]
