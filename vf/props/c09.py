"""C09 — every public load/dump entry point agrees with the class-level codec.

The full configuration matrix
  {load, loads, load_all, loads_all} x {xyz, mol2, cdxml, obabel-only fmt, nonsense fmt} x {str path, Path | string}
      x {fmt explicit, fmt from suffix} x {"molecule", "ensemble", Structure, Molecule, ConformerEnsemble} x {name given, not given}
  {dump} x {xyz, mol2, unsupported} x {str path, Path, open stream} x {mode a, w} x {Molecule, Structure, ConformerEnsemble, Conformer}
  {dumps} x {xyz, mol2, unsupported} x object kinds
is enumerated completely (leg matrix, over bundled files) and sampled with generated inputs (leg gen).
Oracle: differential - the module-level function must return / write exactly what the class
method does on the same input (same type, equal snapshot, list where promised, name honoured,
stream left open, ValueError for unsupported formats).
"""
from __future__ import annotations

import io
import itertools
import os
import shutil
from pathlib import Path

import numpy as np
from hypothesis import strategies as st

from vf import chem
from vf.core import Fail, Leg, HarnessError, tally, exc_sig, rhash as _rh

LEVEL = "exploration"
ASSUMPTIONS = [
    "parser/writer='obabel' cells cannot run here (openbabel absent): skipped and counted",
    "loads_all(..., otype='ensemble') has no class-level counterpart: reported as not comparable",
    "for cdxml, loads/loads_all may raise the documented NotImplementedError; cdxml results are compared on constitution (atoms, bonds, charge, mult), coordinates are C13's subject",
]
_counter = itertools.count()
OTYPES = ["molecule", "ensemble", "Structure", "Molecule", "ConformerEnsemble"]
FMTS = ["xyz", "mol2", "cdxml", "sdf", "qqq"]
BUNDLED = {
    "xyz": ["dendrobine_xyz", "pentane_confs_xyz", "dummy_xyz"],
    "mol2": ["dendrobine_mol2", "pentane_confs_mol2", "dummy_mol2", "dmf_mol2"],
    "cdxml": ["parser_demo_cdxml", "charges_mult_cdxml"],
}


def _tmp():
    d = os.path.join(os.environ["VF_SCRATCH"], "c09", f"{os.getpid()}-{next(_counter)}")
    os.makedirs(d, exist_ok=True)
    return d


def _otype(o):
    import molli as ml

    return {"molecule": ("molecule", ml.Molecule), "ensemble": ("ensemble", ml.ConformerEnsemble), "Structure": (ml.Structure, ml.Structure),
            "Molecule": (ml.Molecule, ml.Molecule), "ConformerEnsemble": (ml.ConformerEnsemble, ml.ConformerEnsemble)}[o]


def _same(exp, got, where, fails, coords=True):
    if type(got) is not type(exp):
        fails.append(Fail("wrong-type-returned", f"{where}: {type(got).__name__}, class method gives {type(exp).__name__}"))
        return
    skip = () if coords else ("coords", "charges", "charges_dtype_kind", "weights")
    d = chem.snap_diff(chem.snapshot(exp), chem.snapshot(got), skip=skip)
    if d:
        fails.append(Fail("result-differs-from-class-method:" + d.split(":")[0].split("[")[0], f"{where}: {d}"))


def _totals(got, where, fails):
    """cdxml: the reference objects below come from the parser's own per-fragment routine, so the totals are judged independently:
    a parsed drawing's charge / multiplicity are what its atoms' drawn charges / radicals add up to - by whichever entry point"""
    try:
        q = sum(a.formal_charge or 0 for a in got.atoms)
        s2 = sum(a.formal_spin or 0 for a in got.atoms)
    except Exception:
        return
    if got.charge != q or got.mult != s2 + 1:
        fails.append(Fail("cdxml-totals-differ-from-the-drawn-charges", f"{where}: charge {got.charge} mult {got.mult}, atoms add up to {q} / {s2 + 1}"))


def run_load_cell(cell, path_or_text, fmt_real, fails):
    """cell: fn, fmt, src, fmtarg, otype, name"""
    import molli as ml

    fn, fmt, otype_s, name = cell["fn"], cell["fmt"], cell["otype"], cell["name"]
    arg_otype, cls = _otype(otype_s)
    where = f"ml.{fn}(fmt={fmt!r}, src={cell.get('src')}, otype={otype_s}, name={name!r})"
    is_file = fn in ("load", "load_all")
    kw = dict(otype=arg_otype, name=name)
    key = None
    if cell.get("key") and fmt_real == "cdxml" and fn == "load":
        # retrieval by label: the class-level codec is CDXMLFile(path)[label]
        import warnings
        with warnings.catch_warnings():
            warnings.simplefilter("ignore")
            labels_ = list(ml.CDXMLFile(path_or_text).keys())
        key = {"first": labels_[0], "last": labels_[-1], "missing": "no such label", "index0": 0, "index_last": -1, "empty": ""}[cell["key"]]     # labels, or the positional keys CDXMLFile[...] accepts
        kw["key"] = key
        where += f" key={key!r}"
    if is_file:
        p = path_or_text
        stem = cell.get("stem")
        if stem:
            # file names with several dots / spaces / upper case in the stem: only the last suffix names the format
            q = os.path.join(_tmp(), stem + "." + (fmt if cell["fmtarg"] == "suffix" else fmt_real))
            shutil.copyfile(p, q)
            p = q
            where += f" file={os.path.basename(q)!r}"
        pipe_fds = []
        if cell["src"] == "pipe":
            # a path that is NOT a regular file (process substitution, /dev/stdin fed by a pipe): /dev/fd/N of a pipe holding the text
            data_ = open(p, "rb").read()
            if len(data_) > 60000:
                return "skip"

            def _pipe():
                r_, w_ = os.pipe()
                os.write(w_, data_)
                os.close(w_)
                pipe_fds.append(r_)
                return f"/dev/fd/{r_}"

            p = _pipe()
        if cell["fmtarg"] == "suffix":
            # the suffix decides: give the file the suffix of the requested format
            if fmt != fmt_real and not stem:
                q = os.path.join(_tmp(), "input." + fmt)
                shutil.copyfile(p, q)
                p = q
            args = (str(p) if cell["src"] == "str" else Path(p),)
        else:
            args = (Path(p) if cell["src"] == "Path" else str(p), fmt)
        if cell.get("key") and fmt_real == "cdxml" and fn == "load":
            path_or_text = p
        if cell["src"] == "pipe":
            path_or_text = _pipe()      # a second pipe with the same text for the class-level reader
    else:
        args = (path_or_text, fmt)
    try:
        got = getattr(ml, fn)(*args, **kw)
        raised = None
    except Exception as e:
        got, raised = None, e
    if is_file and cell["src"] == "pipe":
        try:
            return _judge_load(cell, fn, fmt, fmt_real, cls, name, key, path_or_text, got, raised, where, fails)
        finally:
            for fd_ in pipe_fds:
                try:
                    os.close(fd_)
                except OSError:
                    pass
    return _judge_load(cell, fn, fmt, fmt_real, cls, name, key, path_or_text, got, raised, where, fails)


def _judge_load(cell, fn, fmt, fmt_real, cls, name, key, path_or_text, got, raised, where, fails):
    import molli as ml

    # ---------------- expectation
    if fmt in ("sdf", "qqq"):
        if not isinstance(raised, ValueError):
            fails.append(Fail(f"unsupported-format-not-ValueError:{fn}", f"{where}: {raised!r} / returned {type(got).__name__}"))
        return "rejected"
    if fmt != fmt_real:
        return "skip"   # asking to parse xyz text as mol2 is garbage-in: not part of the matrix
    if fn in ("load_all", "loads_all") and cls is ml.ConformerEnsemble:
        if fn == "load_all":
            if not isinstance(raised, ValueError):
                fails.append(Fail("load_all-ensemble-not-ValueError", f"{where}: {raised!r}"))
            return "rejected"
        return "not-comparable"
    if fmt == "cdxml":
        if fn in ("loads", "loads_all"):
            if not isinstance(raised, (NotImplementedError, ValueError)):
                fails.append(Fail(f"cdxml-from-string-not-rejected:{fn}", f"{where}: {raised!r}"))
            return "rejected"
        cdx = ml.CDXMLFile(path_or_text)
        if fn == "load" and key is not None:
            try:
                exp = cls(cdx[key])
            except KeyError:
                if not isinstance(raised, KeyError):
                    fails.append(Fail("load-by-unknown-key-not-KeyError", f"{where}: {raised!r} / returned {type(got).__name__}"))
                return "rejected"
            if raised is not None:
                fails.append(Fail(f"raises:{fn}:{exc_sig(raised) or type(raised).__name__}", f"{where}: {raised!r}"))
                return "codec"
            if name is not None:
                exp.name = got.name     # the name is judged separately, below
            _same(exp, got, where, fails, coords=False)
            _totals(got, where, fails)
            if name is not None and got.name != name:
                fails.append(Fail(f"name-override-ignored:{fn}:by-key", f"{where}: result is named {got.name!r}"))
            return "codec"
        if fn == "load":
            exp = cls(cdx._parse_fragment(cdx.xfrags[0], name=name))
            if raised is not None:
                fails.append(Fail(f"raises:{fn}:{exc_sig(raised) or type(raised).__name__}", f"{where}: {raised!r}"))
                return "codec"
            _same(exp, got, where, fails, coords=False)
            _totals(got, where, fails)
        else:
            exp = [cls(cdx._parse_fragment(fg, name=name)) for fg in cdx.xfrags]
            if raised is not None:
                fails.append(Fail(f"raises:{fn}:{exc_sig(raised) or type(raised).__name__}", f"{where}: {raised!r}"))
                return "codec"
            if not isinstance(got, list) or len(got) != len(exp):
                fails.append(Fail(f"list-promised:{fn}", f"{where}: returned {type(got).__name__} of {len(got) if hasattr(got, '__len__') else '?'} for {len(exp)} fragments"))
                return "codec"
            for e_, g_ in zip(exp, got):
                _same(e_, g_, where, fails, coords=False)
                _totals(g_, where, fails)
        return "codec"
    meth = {"load": "load_", "loads": "loads_", "load_all": "load_all_", "loads_all": "loads_all_"}[fn] + fmt
    try:
        exp = getattr(cls, meth)(path_or_text, name=name)
    except Exception as e:
        # the class method itself rejects this input: the module function must reject it as well
        if raised is None:
            fails.append(Fail(f"accepted-what-class-method-rejects:{fn}", f"{where}: class method raises {e!r}"))
        return "codec"
    if raised is not None:
        fails.append(Fail(f"raises:{fn}:{exc_sig(raised) or type(raised).__name__}", f"{where}: {raised!r} while {cls.__name__}.{meth} succeeds"))
        return "codec"
    if fn in ("load_all", "loads_all"):
        if not isinstance(got, list):
            fails.append(Fail(f"list-promised:{fn}", f"{where}: returned {type(got).__name__}; {cls.__name__}.{meth} returns a list of {len(exp)}"))
            return "codec"
        if len(got) != len(exp):
            fails.append(Fail(f"list-length-differs:{fn}", f"{where}: {len(got)} vs {len(exp)}"))
            return "codec"
        for i, (e_, g_) in enumerate(zip(exp, got)):
            _same(e_, g_, where + f"[{i}]", fails)
            if name is not None and g_.name != name:
                fails.append(Fail(f"name-override-ignored:{fn}", f"{where}[{i}]: name {g_.name!r}"))
    else:
        _same(exp, got, where, fails)
        if name is not None and got is not None and got.name != name:
            fails.append(Fail(f"name-override-ignored:{fn}:{cls.__name__}", f"{where}: result is named {got.name!r}"))
    return "codec"


def _objects(kind, r):
    import molli as ml

    if kind == "Molecule":
        return chem.build_molecule(r, ml.Molecule)
    if kind == "Structure":
        return chem.build_molecule(r, ml.Structure)
    ens = chem.build_ensemble(r)
    if kind == "ConformerEnsemble":
        return ens
    return ens[0]


def run_dump_cell(cell, obj, fails):
    import molli as ml

    fn, fmt, target, mode = cell["fn"], cell["fmt"], cell.get("target"), cell.get("mode", "a")
    where = f"ml.{fn}({type(obj).__name__}, fmt={fmt!r}, target={target}, mode={mode}, fmtarg={cell.get('fmtarg')})"
    supported = fmt in ("xyz", "mol2")
    kw = dict(KWS[cell.get("kw", 0)])
    exp, exp_exc = None, None
    if supported:
        # the class-level codec with the same writer options decides: its text, or its refusal
        try:
            if fn == "dumps":
                exp = getattr(obj, "dumps_" + fmt)(**kw)
            else:
                b_ = io.StringIO()
                getattr(obj, "dump_" + fmt)(b_, **kw)
                exp = b_.getvalue()
        except TypeError as e:
            exp_exc = e
    if kw:
        where += f" options={kw}"
    if supported and exp_exc is not None:
        # the class method does not know the option: the entry point must refuse it the same way, not drop it
        d_ = _tmp()
        p_ = os.path.join(d_, "held." + fmt)
        with open(p_, "w") as f_:
            f_.write("# previous content\n")
        try:
            if fn == "dumps":
                ml.dumps(obj, fmt, **kw)
            elif target == "stream":
                ml.dump(obj, io.StringIO(), fmt, **kw)
            else:
                ml.dump(obj, p_ if target == "str" else Path(p_), fmt, **kw)
            fails.append(Fail(f"writer-option-silently-dropped:{fn}", f"{where}: class method raises {exp_exc!r}, entry point accepted it"))
        except TypeError:
            if fn == "dump" and target != "stream" and (not os.path.exists(p_) or open(p_).read() != "# previous content\n"):
                fails.append(Fail("refused-dump-damaged-the-existing-file:mode-a", f"{where}: a dump that raised TypeError left the file {'missing' if not os.path.exists(p_) else 'changed'}"))
        except Exception as e:
            fails.append(Fail(f"raises:{fn}:{exc_sig(e) or type(e).__name__}", f"{where}: {e!r}"))
        finally:
            shutil.rmtree(d_, ignore_errors=True)
        return "codec"
    if fn == "dumps":
        try:
            got = ml.dumps(obj, fmt, **kw)
            raised = None
        except Exception as e:
            got, raised = None, e
        if not supported:
            if not isinstance(raised, ValueError):
                fails.append(Fail("unsupported-format-not-ValueError:dumps", f"{where}: {raised!r}"))
            return "rejected"
        if raised is not None:
            fails.append(Fail(f"raises:dumps:{exc_sig(raised) or type(raised).__name__}", f"{where}: {raised!r}"))
        elif got != exp:
            fails.append(Fail("text-differs-from-class-method:dumps", where))
        return "codec"
    d = _tmp()
    try:
        prior = "# previous content\n"
        if target == "stream":
            # the open text stream of the caller: an in-memory buffer, a real file, or any of the other writers Python hands out
            # (tempfile wrapper, codecs writer, a plain object with write()) - whatever it is, it receives the class-level text
            sk = cell.get("stream_kind", "StringIO")
            sp = os.path.join(d, "stream.out")
            if sk == "StringIO":
                s = io.StringIO()
                value = s.getvalue
            elif sk == "file":
                s = open(sp, "w")
                value = lambda: (s.flush(), open(sp).read())[1]
            elif sk == "tempfile":
                import tempfile
                s = tempfile.NamedTemporaryFile("w+", dir=d, suffix="." + fmt)
                value = lambda: (s.flush(), open(s.name).read())[1]
            elif sk == "codecs":
                import codecs
                s = codecs.open(sp, "w", "utf-8")
                value = lambda: (s.flush(), open(sp, encoding="utf-8").read())[1]
            elif sk == "duck":
                class _Duck:
                    closed = False
                    def __init__(self):
                        self.parts = []
                    def write(self, t):
                        self.parts.append(t)
                        return len(t)
                    def close(self):
                        self.closed = True
                s = _Duck()
                value = lambda: "".join(s.parts)
            else:
                raise HarnessError(f"bad stream kind {sk}")
            where += f" stream={sk}"
            s.write(prior)
            try:
                ml.dump(obj, s, fmt, mode=mode, **kw)
                raised = None
            except Exception as e:
                raised = e
            try:
                if not supported:
                    if not isinstance(raised, ValueError):
                        fails.append(Fail("unsupported-format-not-ValueError:dump-to-stream", f"{where}: {raised!r}"))
                    return "rejected"
                if raised is not None:
                    fails.append(Fail(f"raises:dump-to-stream:{exc_sig(raised) or type(raised).__name__}", f"{where}: {raised!r}"))
                    return "codec"
                if s.closed:
                    fails.append(Fail("caller-stream-closed:dump", where))
                    return "codec"
                if value() != prior + exp:
                    fails.append(Fail("text-differs-from-class-method:dump-to-stream", where))
                return "codec"
            finally:
                if sk != "StringIO":
                    try:
                        s.close()
                    except Exception:
                        pass
        p = os.path.join(d, "out." + (fmt if cell["fmtarg"] == "suffix" else "dat"))
        with open(p, "w") as f:
            f.write(prior)
        real_p = p
        if target in ("symlink", "hardlink"):
            # the path handed over is a second NAME of the file (symbolic link / hard link): the text lands in the file it designates,
            # and the name stays what it was - what open(path, mode) does
            p = os.path.join(d, "alias." + (fmt if cell["fmtarg"] == "suffix" else "dat"))
            (os.symlink if target == "symlink" else os.link)(real_p, p)
        fds_before = len(os.listdir("/proc/self/fd"))
        args = (obj, Path(p) if target == "Path" else p) + (() if cell["fmtarg"] == "suffix" else (fmt,))
        try:
            ml.dump(*args, mode=mode, **kw)
            raised = None
        except Exception as e:
            raised = e
        fds_after = len(os.listdir("/proc/self/fd"))
        if fds_after > fds_before:
            fails.append(Fail("file-left-open:dump", f"{where}: {fds_after - fds_before} descriptor(s) leaked"))
        if not supported:
            if not isinstance(raised, ValueError):
                fails.append(Fail("unsupported-format-not-ValueError:dump-to-path", f"{where}: {raised!r}"))
            # a refused dump writes nothing: what the file held before is still there (mode "a") / the refusal must not cost the file
            left = open(p).read() if os.path.exists(p) else None
            if left is None or (mode == "a" and left != prior) or (mode == "w" and left not in (prior, "")):
                fails.append(Fail(f"refused-dump-damaged-the-existing-file:mode-{mode}", f"{where}: file now {'missing' if left is None else repr(left[:40])}, held {prior!r}"))
            return "rejected"
        if raised is not None:
            fails.append(Fail(f"raises:dump-to-path:{exc_sig(raised) or type(raised).__name__}", f"{where}: {raised!r}"))
            return "codec"
        content = open(p).read()
        want = (prior if mode == "a" else "") + exp
        if content != want:
            fails.append(Fail(f"file-content-wrong:dump:mode-{mode}", f"{where}: {len(content)} chars, expected {len(want)}"))
        elif real_p != p:
            if open(real_p).read() != want:
                fails.append(Fail(f"text-did-not-reach-the-file-the-path-designates:{target}", f"{where}: the file behind the {target} still holds {open(real_p).read()[:30]!r}"))
            elif target == "symlink" and not os.path.islink(p):
                fails.append(Fail("symlink-replaced-by-a-regular-file", where))
        return "codec"
    finally:
        shutil.rmtree(d, ignore_errors=True)


# writer options forwarded to the class-level writer (the number format option is called `fmt` there and collides with
# the entry points' own `fmt` parameter, so it cannot be passed through them at all: not exercised)
KWS = [{}, {"write_header": False}, {"write_header": True}, {"no_such_option": 1}]


def load_cells():
    for fn in ("load", "load_all"):
        for fmt in FMTS:
            for src in ("str", "Path"):
                for fmtarg in ("explicit", "suffix"):
                    for ot in OTYPES:
                        for name in (None, "given_name", "lig-1 (2,2'-bipy) #3"):
                            yield {"fn": fn, "fmt": fmt, "src": src, "fmtarg": fmtarg, "otype": ot, "name": name}
                            if name is None:
                                yield {"fn": fn, "fmt": fmt, "src": src, "fmtarg": fmtarg, "otype": ot, "name": name, "stem": "mol.conf.1 v2.XYZ.mol2.final"}
                            if name is None and src == "str" and fmtarg == "explicit" and fmt in ("xyz", "mol2"):
                                yield {"fn": fn, "fmt": fmt, "src": "pipe", "fmtarg": fmtarg, "otype": ot, "name": name}
                            if fn == "load" and fmt == "cdxml":
                                for key in ("first", "last", "missing", "index0", "index_last", "empty"):
                                    yield {"fn": fn, "fmt": fmt, "src": src, "fmtarg": fmtarg, "otype": ot, "name": name, "key": key}
    for fn in ("loads", "loads_all"):
        for fmt in FMTS:
            for ot in OTYPES:
                for name in (None, "given_name", "lig-1 (2,2'-bipy) #3"):
                    yield {"fn": fn, "fmt": fmt, "src": "string", "fmtarg": "explicit", "otype": ot, "name": name}


def dump_cells():
    for fmt in ("xyz", "mol2", "sdf", "qqq", "cdxml"):   # cdxml: readable by molli, but not writable
        for target in ("str", "Path", "stream"):
            for mode in ("a", "w"):
                for fmtarg in (("explicit", "suffix") if target != "stream" else ("explicit",)):
                    for kw in range(len(KWS)):
                        yield {"fn": "dump", "fmt": fmt, "target": target, "mode": mode, "fmtarg": fmtarg, "kw": kw}
                        if target == "str" and fmtarg == "explicit" and kw == 0:
                            for alias in ("symlink", "hardlink"):
                                yield {"fn": "dump", "fmt": fmt, "target": alias, "mode": mode, "fmtarg": fmtarg, "kw": kw}
                        if target == "stream" and mode == "a" and kw in (0, 1):
                            for sk in ("file", "tempfile", "codecs", "duck"):
                                yield {"fn": "dump", "fmt": fmt, "target": target, "mode": mode, "fmtarg": fmtarg, "kw": kw, "stream_kind": sk}
        for kw in range(len(KWS)):
            yield {"fn": "dumps", "fmt": fmt, "kw": kw}


def check_matrix(recipe) -> list[Fail]:
    """recipe: {"input": {"fmt":..., "file": bundled name} | {"fmt":..., "mol": recipe, "frames": n}, "cells": "all" | [cell...]}"""
    import molli as ml

    fails: list[Fail] = []
    inp = recipe["input"]
    d = _tmp()
    try:
        # process history: every entry point has been used before (string loaders, a refused format, a dump) - later calls must not care
        try:
            ml.loads("1\nwarm\nH 0.0 0.0 0.0\n", "xyz")
            ml.loads_all("1\nwarm\nH 0.0 0.0 0.0\n", "xyz")
            ml.dumps(ml.Molecule(["H"], coords=[[0.0, 0.0, 0.0]]), "xyz")
            for fn_ in (ml.loads, ml.loads_all):
                try:
                    fn_("x", "cdxml")
                except Exception:
                    pass
        except Exception as e:
            fails.append(Fail(f"raises:warm-up:{exc_sig(e) or type(e).__name__}", repr(e)[:200]))
        fmt_real = inp["fmt"]
        if "file" in inp:
            path = str(getattr(ml.files, inp["file"]))
            text = open(path).read() if fmt_real != "cdxml" else None
        else:
            obj = chem.build_ensemble(inp["mol"]) if inp.get("multi") else chem.build_molecule(inp["mol"], ml.Molecule)
            text = getattr(obj, "dumps_" + fmt_real)()
            path = os.path.join(d, "gen." + fmt_real)
            with open(path, "w") as f:
                f.write(text)
        tail = inp.get("tail")
        if tail and text is not None:
            # the END of the file is not clean (a writer died inside a later structure, an editor left blank lines, a stray line):
            # whatever the class-level readers make of it - the first structure, an error - the entry points make the same of it
            if tail == "trunc":
                text = text[: max(1, (len(text) * 4) // 5)]
            elif tail == "trunc_line":
                text = text[: max(1, (len(text) * 4) // 5)].rsplit("\n", 1)[0] + "\n"
            elif tail == "blank":
                text = text + "\n\n"
            elif tail == "garbage":
                text = text + "this line does not belong here\n"
            else:
                raise HarnessError(f"bad tail {tail}")
            path = os.path.join(d, "tail." + fmt_real)
            with open(path, "w") as f:
                f.write(text)
        n_units, keys, labels = 0, [], {}
        if tail:
            labels[f"unclean_end={tail}"] = 1
        cells = list(load_cells()) if recipe["cells"] == "all" else recipe["cells"]
        for cell in cells:
            if cell["fn"] not in ("load", "loads", "load_all", "loads_all"):
                continue
            is_file = cell["fn"] in ("load", "load_all")
            if not is_file and text is None:
                src = path   # cdxml from string: pass anything, must be rejected
            else:
                src = path if is_file else text
            before = len(fails)
            kind = run_load_cell(cell, src, fmt_real, fails)
            n_units += 1
            labels[f"outcome={kind}"] = labels.get(f"outcome={kind}", 0) + 1
            multi = bool(inp.get("multi")) or inp.get("file", "").startswith("pentane")
            if kind == "codec" and (("_all" not in cell["fn"]) or multi):
                keys.append((repr(inp)[:80], tuple(sorted(cell.items(), key=str))))
            for f_ in fails[before:]:
                f_.recipe = {"input": inp, "cells": [cell]}
        tally(units=max(0, n_units - 1), nontrivial_keys=keys, labels=labels)
    finally:
        shutil.rmtree(d, ignore_errors=True)
    return _dedup(fails)


def check_dump(recipe) -> list[Fail]:
    fails: list[Fail] = []
    obj = _objects(recipe["kind"], recipe["mol"])
    cells = list(dump_cells()) if recipe["cells"] == "all" else recipe["cells"]
    n, keys, labels = 0, [], {}
    for cell in cells:
        before = len(fails)
        kind = run_dump_cell(cell, obj, fails)
        n += 1
        labels[f"outcome={kind}"] = labels.get(f"outcome={kind}", 0) + 1
        if kind == "codec" and obj.n_atoms >= 2:
            keys.append((recipe["kind"], _rh(recipe["mol"]), tuple(sorted(cell.items()))))
        for f_ in fails[before:]:
            f_.recipe = dict(recipe, cells=[cell])
    tally(units=max(0, n - 1), nontrivial_keys=keys, labels=labels)
    return _dedup(fails)


def _dedup(fails):
    seen, out = set(), []
    for f in fails:
        if f.sig not in seen:
            seen.add(f.sig)
            out.append(f)
    return out


def check_rewrite(recipe) -> list[Fail]:
    """history: load a path, replace the file's contents, load the same path again - every time the result must be what the class-level codec gives for the CURRENT contents"""
    import molli as ml

    fails: list[Fail] = []
    d = _tmp()
    try:
        fmt = recipe["fmt"]
        path = os.path.join(d, "same_path." + fmt)
        contents = []
        if fmt == "cdxml":
            for f in recipe["files"]:
                contents.append(open(str(getattr(ml.files, f)), "rb").read())
        else:
            for r in recipe["mols"]:
                contents.append(getattr(chem.build_molecule(r, ml.Molecule), "dumps_" + fmt)().encode())
        keys = []
        for step, blob in enumerate(contents):
            with open(path, "wb") as f:
                f.write(blob)
            for fn in recipe["fns"]:
                where = f"step {step}: ml.{fn}({fmt} at a path whose contents were replaced {step} time(s))"
                try:
                    if fmt == "cdxml":
                        cdx = ml.CDXMLFile(path)
                        if fn == "load":
                            exp = ml.Molecule(cdx._parse_fragment(cdx.xfrags[0]))
                            got = ml.load(path)
                            _same(exp, got, where, fails, coords=False)
                        else:
                            exp = [ml.Molecule(cdx._parse_fragment(fg)) for fg in cdx.xfrags]
                            got = ml.load_all(path)
                            if len(got) != len(exp):
                                fails.append(Fail("stale-or-wrong-result-after-file-rewrite:" + fn, f"{where}: {len(got)} fragments, the file has {len(exp)}"))
                            else:
                                for e_, g_ in zip(exp, got):
                                    _same(e_, g_, where, fails, coords=False)
                    else:
                        if fn == "load":
                            _same(getattr(ml.Molecule, "load_" + fmt)(path), ml.load(path), where, fails)
                        else:
                            exp = getattr(ml.Molecule, "load_all_" + fmt)(path)
                            got = ml.load_all(path)
                            if not isinstance(got, list) or len(got) != len(exp):
                                fails.append(Fail("stale-or-wrong-result-after-file-rewrite:" + fn, where))
                            else:
                                for e_, g_ in zip(exp, got):
                                    _same(e_, g_, where, fails)
                except Exception as e:
                    s_ = exc_sig(e)
                    if s_ is None:
                        raise
                    fails.append(Fail(f"raises-after-file-rewrite:{fn}:{s_}", f"{where}: {e!r}"[:300]))
                if step > 0:
                    keys.append((fmt, fn, step, _rh(recipe)))
        for f_ in fails:
            if f_.sig.startswith("result-differs") or f_.sig.startswith("wrong-type"):
                f_.sig = "stale-or-wrong-result-after-file-rewrite:" + f_.sig
        tally(units=max(0, len(contents) * len(recipe["fns"]) - 1), nontrivial_keys=keys)
    finally:
        shutil.rmtree(d, ignore_errors=True)
    return _dedup(fails)


def strat_rewrite(tier):
    molr = chem.molecule_recipe(max_atoms=6, max_bonds=6, attribs=False, mol2_safe=True, min_atoms=1).map(_clean)
    fns = st.lists(st.sampled_from(["load", "load_all"]), min_size=1, max_size=2, unique=True)
    return st.one_of(
        st.fixed_dictionaries({"fmt": st.sampled_from(["xyz", "mol2"]), "mols": st.lists(molr, min_size=2, max_size=3), "fns": fns}),
        st.fixed_dictionaries({"fmt": st.just("cdxml"), "files": st.lists(st.sampled_from(["parser_demo_cdxml", "charges_mult_cdxml", "substituents_cdxml", "BOX_bridge", "BOX_cores"]), min_size=2, max_size=3, unique=True), "fns": fns}),
    )


def enum_matrix(tier, shard, nshards):
    i = 0
    for fmt, files in BUNDLED.items():
        for fl in files:
            if i % nshards == shard:
                yield {"input": {"fmt": fmt, "file": fl}, "cells": "all"}
                if fmt != "cdxml" and fl.startswith(("pentane", "dendrobine")):
                    for tl in ("trunc", "trunc_line", "blank", "garbage"):
                        yield {"input": {"fmt": fmt, "file": fl, "tail": tl}, "cells": "all"}
            i += 1


_SIMPLE = {
    "name": "gen", "charge": 0, "mult": 1, "attrib": {},
    "atoms": [{"el": e, "iso": None, "label": None, "atype": 1, "stereo": 0, "geom": 0, "fc": 0, "fs": 0, "attrib": {}} for e in (6, 8, 1)],
    "coords": [[0.0, 0.0, 0.0], [1.2, 0.0, 0.0], [-0.5, 0.9, 0.0]], "charges": [0.1, -0.2, 0.1],
    "bonds": [{"a": 0, "b": 1, "label": None, "btype": 2, "stereo": 0, "f_order": 1.0, "attrib": {}}, {"a": 0, "b": 2, "label": None, "btype": 1, "stereo": 0, "f_order": 1.0, "attrib": {}}],
    "confs": [[[0.0, 0.0, 0.0], [1.2, 0.0, 0.0], [-0.5, 0.9, 0.0]], [[0.0, 0.1, 0.0], [1.2, 0.0, 0.3], [-0.5, 0.9, 0.1]]], "weights": [1.0, 0.5], "conf_charges": [[0.1, -0.2, 0.1], [0.0, 0.0, 0.0]],
}


def enum_dump(tier, shard, nshards):
    for i, kind in enumerate(["Molecule", "Structure", "ConformerEnsemble", "Conformer"]):
        if i % nshards == shard:
            yield {"kind": kind, "mol": _SIMPLE, "cells": "all"}


def _clean(r):
    import math

    def cl(x):
        return 1.25 if (x != x or math.isinf(x)) else max(-9999.0, min(9999.0, x))

    r = dict(r)
    r["coords"] = [[cl(x) for x in c] for c in r["coords"]]
    if "confs" in r:
        r["confs"] = [[[cl(x) for x in c] for c in f] for f in r["confs"]]
    return r


_TAILS = st.sampled_from([None, None, None, "trunc", "trunc_line", "blank", "garbage"])


def strat_gen(tier):
    molr = chem.molecule_recipe(max_atoms=8, max_bonds=8, attribs=False, mol2_safe=True, min_atoms=1).map(_clean)
    ensr = chem.ensemble_recipe(max_atoms=6, max_bonds=6, max_conf=3, attribs=False, mol2_safe=True, min_atoms=1).filter(lambda r: len(r["confs"]) >= 2).map(_clean)
    cells = st.lists(st.sampled_from(list(load_cells())), min_size=6, max_size=14)
    return st.one_of(
        st.fixed_dictionaries({"input": st.fixed_dictionaries({"fmt": st.sampled_from(["xyz", "mol2"]), "mol": molr, "tail": _TAILS}), "cells": cells}),
        st.fixed_dictionaries({"input": st.fixed_dictionaries({"fmt": st.sampled_from(["xyz", "mol2"]), "mol": ensr, "multi": st.just(True), "tail": _TAILS}), "cells": cells}),
    )


def strat_gen_dump(tier):
    ensr = chem.ensemble_recipe(max_atoms=6, max_bonds=6, max_conf=3, attribs=False, mol2_safe=True).filter(lambda r: len(r["confs"]) >= 1).map(_clean)
    return st.fixed_dictionaries({"kind": st.sampled_from(["Molecule", "Structure", "ConformerEnsemble", "Conformer"]), "mol": ensr,
                                  "cells": st.lists(st.sampled_from(list(dump_cells())), min_size=4, max_size=10)})


LEGS = [
    Leg("rewrite", check_rewrite, lambda r: (False, ["fmt=" + r["fmt"]]), strategy=strat_rewrite, n={"quick": 60, "thorough": 1500}, shards={"quick": 12, "thorough": 32},
        rule="histories on ONE path: write contents A, ml.load / ml.load_all, replace the contents by B (and C), load again; xyz / mol2 (generated) and cdxml (bundled drawings); the result must follow the current contents; non-trivial = loads after a rewrite"),
    Leg("matrix", check_matrix, lambda r: (False, ["input=" + r["input"].get("file", "generated")]), enumerate=enum_matrix, exhaustive=True, shards={"quick": 9, "thorough": 9},
        rule="ALL load/loads/load_all/loads_all cells (fn x 5 formats x src kind x fmt explicit|suffix x 5 otypes x name given|not = 500 cells) on each of 9 bundled xyz / mol2 / cdxml files; "
             "evaluations = cells executed; non-trivial = cell reaches a codec (not rejected by format validation; multi-frame file for the _all functions)"),
    Leg("dump_matrix", check_dump, lambda r: (False, ["kind=" + r["kind"]]), enumerate=enum_dump, exhaustive=True, shards={"quick": 4, "thorough": 4},
        rule="ALL dump/dumps cells (5 formats incl. the read-only cdxml x {str path, Path, stream} x mode a|w x fmt explicit|suffix + dumps) on Molecule, Structure, ConformerEnsemble, Conformer"),
    Leg("gen", check_matrix, lambda r: (False, ["multi" if r["input"].get("multi") else "single"]), strategy=strat_gen, n={"quick": 300, "thorough": 6000}, shards={"quick": 16, "thorough": 32},
        rule="generated single- and multi-frame xyz / mol2 inputs x 6-14 random load cells each"),
    Leg("gen_dump", check_dump, lambda r: (False, ["kind=" + r["kind"]]), strategy=strat_gen_dump, n={"quick": 300, "thorough": 6000}, shards={"quick": 16, "thorough": 32},
        rule="generated objects x 4-10 random dump cells each"),
]
