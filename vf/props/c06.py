"""C06 — copies are faithful and independent; derived molecules never alter their sources.

case = (source class, generated source, copy route, mutation script, side to mutate)
  faithful:     snapshot(copy) == image of snapshot(source) for that route (common fields), parents / indices right
  independent:  snapshot(other side) unchanged after the mutation script ran on one side;
                no shared ndarray memory, no shared attrib container at any depth (identity walk)
"""
from __future__ import annotations

import copy as _copy
import pickle

import numpy as np
from hypothesis import strategies as st

from vf import chem
from vf.core import Fail, Leg, HarnessError

LEVEL = "exploration"
ASSUMPTIONS = [
    "constructing from a bare atom list with copy_atoms=False re-parents those atoms by documented design and is not a copy route",
    "cross-class construction is compared on the fields both classes have; ConformerEnsemble(Molecule) coordinates are C14's subject",
    "concatenate: atoms, bonds, coordinates concatenated and total charge summed; partial charges of the product are not asserted",
]
CLASSES = ["Promolecule", "Connectivity", "CartesianGeometry", "Structure", "Molecule", "ConformerEnsemble", "Conformer"]
CHAIN = ["Promolecule", "Connectivity", "CartesianGeometry", "Structure", "Molecule"]


def _cls(name):
    import molli as ml

    return getattr(ml, name) if hasattr(ml, name) else getattr(ml.chem, name)


def build(src_cls, r):
    import molli as ml

    if src_cls in ("Structure", "Molecule"):
        return chem.build_molecule(r, _cls(src_cls)), None
    if src_cls == "ConformerEnsemble":
        return chem.build_ensemble(r), None
    if src_cls == "Conformer":
        ens = chem.build_ensemble(r)
        if ens.n_conformers == 0:
            raise HarnessError("conformer source needs >=1 conformer")
        return ens[r.get("conf_id", 0) % ens.n_conformers], ens
    atoms = chem.build_atoms(r)
    kw = dict(name=r["name"], charge=r["charge"], mult=r["mult"], attrib=chem.dec_attr(r["attrib"]))
    if src_cls == "Promolecule":
        return ml.Promolecule(atoms, **kw), None
    if src_cls == "Connectivity":
        o = ml.Connectivity(atoms, **kw)
        chem._connect(o, r)
        return o, None
    if src_cls == "CartesianGeometry":
        return ml.CartesianGeometry(atoms, coords=np.array(r["coords"], dtype=float).reshape((len(atoms), 3)), **kw), None
    raise HarnessError("bad class")


def containers(obj):
    """ids of every mutable container reachable from the object's attribute dictionaries, and its arrays"""
    ids = {}

    def walk(x, where):
        if isinstance(x, dict):
            ids[id(x)] = where
            for k, v in x.items():
                walk(v, where + f"[{k!r}]")
        elif isinstance(x, list):
            ids[id(x)] = where
            for i, v in enumerate(x):
                walk(v, where + f"[{i}]")
        elif isinstance(x, np.ndarray):
            ids[id(x)] = where

    walk(getattr(obj, "attrib", None), "attrib")
    for i, a in enumerate(obj.atoms):
        ids[id(a)] = f"atoms[{i}]"
        walk(a.attrib, f"atoms[{i}].attrib")
    for i, b in enumerate(getattr(obj, "bonds", [])):
        ids[id(b)] = f"bonds[{i}]"
        walk(b.attrib, f"bonds[{i}].attrib")
    return ids


def arrays(obj):
    out = {}
    for n in ("coords", "atomic_charges", "weights"):
        if hasattr(obj, n):
            a = getattr(obj, n)
            if isinstance(a, np.ndarray):
                out[n] = a
    return out


def parents_ok(obj, what) -> str | None:
    """every atom/bond reports `obj` (or for a Conformer its ensemble) as parent and its index"""
    owner = obj._parent if type(obj).__name__ == "Conformer" else obj
    for i, a in enumerate(obj.atoms):
        try:
            p = a.parent
            ix = a.idx
        except Exception as e:
            return f"{what}: atoms[{i}].parent/.idx raises {type(e).__name__}: {e}"
        if p is not owner:
            return f"{what}: atoms[{i}].parent is {p!r}"
        if ix != i:
            return f"{what}: atoms[{i}].idx == {ix}"
    for i, b in enumerate(getattr(obj, "bonds", [])):
        try:
            p = b.parent
        except Exception as e:
            return f"{what}: bonds[{i}].parent raises {type(e).__name__}: {e}"
        if p is not owner:
            return f"{what}: bonds[{i}].parent is {p!r}"
        if not any(b.a1 is x for x in obj.atoms) or not any(b.a2 is x for x in obj.atoms):
            return f"{what}: bonds[{i}] joins an atom that is not in the object"
    return None


def _nested(attr):
    """first nested mutable container inside an attrib dict (depth 2)"""
    for k, v in attr.items():
        if isinstance(v, (list, dict, np.ndarray)):
            return k, v
    return None, None


def mutate(obj, script, owner=None):
    """applies the mutation script; every step is skipped when not applicable"""
    import molli as ml
    from molli.chem import Atom, AtomType, BondType

    n = len(obj.atoms)
    is_conf = type(obj).__name__ == "Conformer"
    for m in script:
        k = m[0]
        n = len(obj.atoms)
        nb = len(getattr(obj, "bonds", []))
        if k == "atom_field" and n:
            a = obj.atoms[m[1] % n]
            f = ["element", "label", "isotope", "atype", "formal_charge", "formal_spin", "stereo", "geom"][m[2] % 8]
            setattr(a, f, {"element": 79, "label": "MUT", "isotope": 999, "atype": AtomType.Dummy, "formal_charge": 7, "formal_spin": 5, "stereo": 11, "geom": 61}[f])
        elif k == "atom_attrib" and n:
            obj.atoms[m[1] % n].attrib["__mutated"] = [1, 2, 3]
        elif k == "atom_attrib_deep" and n:
            for a in obj.atoms:
                kk, v = _nested(a.attrib)
                if kk is not None:
                    _poke(a.attrib, kk, v)
                    break
        elif k == "bond_field" and nb:
            b = obj.bonds[m[1] % nb]
            f = ["btype", "label", "f_order", "stereo"][m[2] % 4]
            setattr(b, f, {"btype": BondType.Sextuple, "label": "MUTB", "f_order": 3.25, "stereo": 21}[f])
        elif k == "bond_attrib" and nb:
            obj.bonds[m[1] % nb].attrib["__mutated"] = {"x": 1}
        elif k == "bond_attrib_deep" and nb:
            for b in obj.bonds:
                kk, v = _nested(b.attrib)
                if kk is not None:
                    _poke(b.attrib, kk, v)
                    break
        elif k == "coords_inplace" and hasattr(obj, "coords") and n and obj.coords.size:
            c = obj.coords
            c[..., m[1] % n, :] = 77.5
        elif k == "charges_inplace" and hasattr(obj, "atomic_charges") and n and np.asarray(obj.atomic_charges).size:
            q = obj.atomic_charges
            q[..., m[1] % n] = -9.5
        elif k == "weights_inplace" and hasattr(obj, "weights") and obj.weights.size:
            obj.weights[0] = 123.0
        elif k == "mol_attrib":
            obj.attrib["__mutated"] = "yes"
        elif k == "mol_attrib_deep":
            kk, v = _nested(obj.attrib)
            if kk is not None:
                _poke(obj.attrib, kk, v)
        elif k == "scalars" and not is_conf:
            obj.name = "MUTATED"
            obj.charge = 42
            obj.mult = 9
        elif k == "add_atom" and not is_conf:
            if isinstance(obj, ml.Molecule):
                obj.add_atom(Atom("Xe"), [1.0, 2.0, 3.0], 0.5)
            elif isinstance(obj, ml.CartesianGeometry):
                obj.add_atom(Atom("Xe"), [1.0, 2.0, 3.0])
            elif not isinstance(obj, ml.ConformerEnsemble):
                obj.append_atom(Atom("Xe"))
        elif k == "del_atom" and n and not is_conf and not isinstance(obj, ml.ConformerEnsemble):
            obj.del_atom(obj.atoms[m[1] % n])
        elif k == "connect" and hasattr(obj, "bonds") and n >= 2 and not is_conf:
            i, j = m[1] % n, m[2] % n
            if i != j and obj.lookup_bond(obj.atoms[i], obj.atoms[j]) is None:
                obj.connect(obj.atoms[i], obj.atoms[j])
        elif k == "del_bond" and nb and not is_conf:
            obj.del_bond(obj.bonds[m[1] % nb])
        elif k == "add_h" and isinstance(obj, ml.Structure) and not is_conf and n:
            if np.all(np.isfinite(obj.coords)):
                obj.add_implicit_hydrogens()
        elif k == "scale" and hasattr(obj, "scale") and n:
            obj.scale(2.0)
        elif k == "translate" and hasattr(obj, "translate") and n:
            obj.translate(np.array([1.0, -2.0, 0.5]))


def _poke(attr, k, v):
    if isinstance(v, list):
        v.append("POKED")
    elif isinstance(v, dict):
        v["POKED"] = 1
    elif isinstance(v, np.ndarray) and v.size:
        v.flat[0] = v.flat[0] + 17


def expected_image(src_snap, src_cls, route, dst_cls):
    """which snapshot fields the copy must reproduce"""
    fields = ["name", "charge", "mult", "attrib", "atoms"]
    order = {c: i for i, c in enumerate(CHAIN)}
    if route in ("pickle", "deepcopy"):
        return [k for k in src_snap if k != "cls"] + ["cls"]
    if route == "ctor_list":
        return ["atoms", "bonds", "coords", "charges", "cls"]     # an ensemble rebuilt from the list of its own conformers (weights are not part of a conformer)
    if src_cls == dst_cls or (src_cls == "Conformer" and dst_cls == "Molecule") or route in ("ctor+arrays", "ctor+assign"):
        out = [k for k in src_snap if k != "cls"]
        if src_cls == "Conformer":
            out = [k for k in out if k not in ("weights",)]
        return out
    s, d = src_cls if src_cls != "Conformer" else "Molecule", dst_cls
    if s in order and d in order:
        both_conn = s != "CartesianGeometry" and d != "CartesianGeometry" and min(order[s], order[d]) >= 1
        both_geom = min(order[s], order[d]) >= 2
        if both_conn and not (s == "Promolecule" or d == "Promolecule"):
            fields.append("bonds")
        if both_geom:
            fields.append("coords")
        if s == "Molecule" and d == "Molecule":
            fields.append("charges")
        return fields
    if d == "ConformerEnsemble":
        if s in ("Connectivity", "Structure", "Molecule"):
            fields.append("bonds")
        return fields
    return fields


def check(recipe) -> list[Fail]:
    import molli as ml

    src_cls, route, side = recipe["src_cls"], recipe["route"], recipe["side"]
    fails: list[Fail] = []
    src, owner = build(src_cls, recipe["mol"])
    if recipe.get("parallel") and src_cls in ("Connectivity", "Structure", "Molecule") and getattr(src, "n_bonds", 0):
        # a second bond on an already bonded pair (a covalent bond plus an annotation bond): part of the bond sequence like any other
        from molli.chem import Bond, BondType
        b0 = src.bonds[recipe["parallel"] % src.n_bonds]
        src.extend_bonds([Bond(b0.a2, b0.a1, label="par", btype=BondType.H_Donor if b0.btype != BondType.H_Donor else BondType.Aromatic, attrib={"second": [1, 2]})])
    if recipe.get("rich") and getattr(src, "n_atoms", 0):
        # attribute values of the richer standard types (in-memory copies only: the library encoders of C01 do not know them)
        import collections
        src.atoms[0].attrib["counts"] = collections.Counter({"C": 2, "H": 5})
        src.atoms[-1].attrib["ordered"] = collections.OrderedDict([("b", [1, 2]), ("a", {"deep": (3, 4)})])
        if hasattr(src, "attrib") and isinstance(src.attrib, dict):
            src.attrib["tags"] = {"x", "y"}
            src.attrib["by_el"] = collections.defaultdict(list, {"C": [0, 1]})
    tag = route.split(":")[0].replace("+", "_")   # root causes are keyed by route kind; classes go into the detail
    who = f"[{src_cls} -> {route}] "
    wrapped = bool(recipe.get("wrapped")) and src_cls in ("Structure", "Molecule") and src.n_atoms > 0
    if wrapped:
        # the source's Atom objects were handed, uncopied, to a throw-away container earlier (e.g. ml.Promolecule(m.atoms).formula)
        # which is gone again: their weak parent reference is dead, the source itself (atom list, bonds, arrays) is as before
        import gc
        tmp = ml.Promolecule(list(src.atoms))
        del tmp
        gc.collect()
    snap_src = chem.snapshot(src)

    # ---------------- make the copy
    dst_cls = src_cls
    try:
        if route.startswith("ctor:"):
            dst_cls = route[5:]
            cp = _cls(dst_cls)(src)
        elif route == "ctor+arrays":
            # copy construction with the source's own arrays handed over explicitly
            kw = {n: getattr(src, n) for n in (("coords",) if hasattr(src, "coords") else ()) }
            if hasattr(src, "atomic_charges") and src_cls != "Structure":
                kw["atomic_charges"] = src.atomic_charges
            if hasattr(src, "weights"):
                kw["weights"] = src.weights
            cp = _cls(src_cls if src_cls != "Conformer" else "Molecule")(src, **kw)
            dst_cls = src_cls if src_cls != "Conformer" else "Molecule"
        elif route == "ctor+assign":
            # copy, then assign the source's arrays through the public setters
            dst_cls = src_cls if src_cls != "Conformer" else "Molecule"
            cp = _cls(dst_cls)(src)
            if hasattr(src, "coords"):
                cp.coords = src.coords
            if hasattr(src, "atomic_charges") and hasattr(cp, "atomic_charges"):
                cp.atomic_charges = src.atomic_charges
            if hasattr(src, "weights") and hasattr(cp, "weights"):
                cp.weights = src.weights
        elif route == "ctor_list":
            # copy construction from a LIST of structures: the conformers of the source (what ConformerEnsemble(ens[a:b]) does)
            if src.n_conformers < 1:
                return []
            cp = ml.ConformerEnsemble(src[:])
        elif route == "pickle":
            cp = pickle.loads(pickle.dumps(src))
        elif route == "deepcopy":
            if recipe.get("bundle") and getattr(src, "n_atoms", 0):
                # the object is deep-copied as part of a CONTAINER that also refers into it (a site, a bond, its ensemble): one deep copy is
                # one world - the copied references point into the copied object
                i_ = recipe["bundle"] % src.n_atoms
                refs = {"obj": src, "atom": src.atoms[i_]}
                if getattr(src, "n_bonds", 0):
                    refs["bond"] = src.bonds[recipe["bundle"] % src.n_bonds]
                if owner is not None:
                    refs["owner"] = owner
                b2 = _copy.deepcopy(refs)
                cp = b2["obj"]
                if b2["atom"] is not cp.atoms[i_]:
                    return [Fail("deepcopy-of-a-container-splits-object-and-reference:atom", f"{who}atom {i_} referenced next to the object is not atom {i_} of the copied object (parent {b2['atom'].parent!r})")]
                if "bond" in refs and b2["bond"] is not cp.bonds[recipe["bundle"] % src.n_bonds]:
                    return [Fail("deepcopy-of-a-container-splits-object-and-reference:bond", who)]
                if owner is not None and not any(a_ is cp.atoms[0] for a_ in b2["owner"].atoms[:1]):
                    return [Fail("deepcopy-of-a-container-splits-object-and-reference:ensemble", f"{who}the copied conformer is not a view of the copied ensemble")]
            else:
                cp = _copy.deepcopy(src)
        elif route in ("concat", "or", "concat3"):
            other, _ = build("Structure", recipe["mol2"])
            if route == "concat3":
                # three operands in one call (the | operator only ever passes two)
                third, _ = build("Structure", recipe["mol"])
                cp = ml.Structure.concatenate(src, other, third)
            else:
                cp = ml.Structure.concatenate(src, other) if route == "concat" else (src | other)
        elif route == "join":
            # both fragments get a well-spread geometry and one attachment point on their first atom
            other, _ = build("Structure", recipe["mol2"])
            if src.n_atoms == 0 or other.n_atoms == 0:
                return []
            from molli.chem import Atom, AtomType

            aps = []
            for frag, sgn in ((src, 1.0), (other, -1.0)):
                frag.coords = np.array([[1.3 * i, 0.7 * (i % 3), 0.9 * (i % 2)] for i in range(frag.n_atoms)], dtype=float)
                ap = Atom(element=0, atype=AtomType.AttachmentPoint, label="AP")
                frag.add_atom(ap, [-0.8 * sgn, -0.6 * sgn, -0.5])
                frag.connect(frag.atoms[0], ap)
                aps.append(ap)
            snap_src = chem.snapshot(src)
            cp = _cls(src_cls).join(src, other, aps[0], aps[1], optimize_rotation=bool(len(recipe["mut"]) % 2))
        else:
            raise HarnessError("bad route")
    except HarnessError:
        raise
    except Exception as e:
        from vf.core import exc_sig

        return [Fail(f"copy-raises:{tag}:{exc_sig(e) or type(e).__name__}", repr(e)[:300])]

    # ---------------- faithful
    if route in ("concat", "or", "concat3"):
        snaps = [snap_src, chem.snapshot(other)] + ([chem.snapshot(third)] if route == "concat3" else [])
        sc = chem.snapshot(cp)
        exp_atoms, exp_bonds, off = [], [], 0
        for sn in snaps:
            exp_atoms += sn["atoms"]
            exp_bonds += [(a + off, b + off) + tuple(rest) for (a, b, *rest) in sn["bonds"]]
            off += len(sn["atoms"])
        d = chem.snap_diff({"atoms": exp_atoms, "bonds": exp_bonds, "coords": np.vstack([sn["coords"] for sn in snaps]), "charge": sum(sn["charge"] for sn in snaps)}, sc)
        if d:
            fails.append(Fail(f"unfaithful:{tag}:{d.split(':')[0].split('[')[0]}", d))
    elif route == "join":
        # every atom and bond of both fragments except the attachment points, with every field; one new bond
        def afield(a):
            return (int(a.element), a.isotope, a.label, int(a.atype), int(a.stereo), int(a.geom), a.formal_charge, a.formal_spin, repr(chem.norm_attr(a.attrib)))

        def bfield(b):
            return (tuple(sorted([afield(b.a1), afield(b.a2)], key=repr)), b.label, int(b.btype), int(b.stereo), float(b.f_order), repr(chem.norm_attr(b.attrib)))

        exp_a = sorted((afield(a) for frag, ap in ((src, aps[0]), (other, aps[1])) for a in frag.atoms if a is not ap), key=repr)
        exp_b = sorted((bfield(b) for frag, ap in ((src, aps[0]), (other, aps[1])) for b in frag.bonds if ap not in b), key=repr)
        got_a = sorted((afield(a) for a in cp.atoms), key=repr)
        got_b = sorted((bfield(b) for b in cp.bonds), key=repr)
        if got_a != exp_a:
            fails.append(Fail("unfaithful:join:atoms", f"{who}{[x for x in exp_a if x not in got_a][:2]} missing / {[x for x in got_a if x not in exp_a][:2]} unexpected"))
        left = list(got_b)
        for x in exp_b:
            if x in left:
                left.remove(x)
            else:
                fails.append(Fail("unfaithful:join:bonds", f"{who}bond {x} of a fragment is not in the product with the same fields"))
                break
        if not fails and len(left) != 1:
            fails.append(Fail("unfaithful:join:bonds", f"{who}{len(left)} bonds besides the fragments' own (expected the one new bond)"))
    else:
        sc = chem.snapshot(cp)
        fields = expected_image(snap_src, src_cls, route, dst_cls)
        exp = {k: snap_src[k] for k in fields if k in snap_src}
        if "cls" in fields and src_cls != "Conformer":
            exp["cls"] = snap_src["cls"]
        d = chem.snap_diff(exp, sc)
        if d:
            head = d.split(":")[0]
            field = head.split("[")[0] + ("." + head.split(".")[-1] if "." in head and head.split("[")[0] in ("atoms", "bonds") else "")
            fails.append(Fail(f"unfaithful:{tag}:{field}", d))
    p = parents_ok(cp, "copy")
    if p:
        fails.append(Fail(f"copy-parent-or-index-wrong:{tag}", p))
    p = None if wrapped else parents_ok(src, "source after copying")
    if p:
        fails.append(Fail(f"source-parent-or-index-changed:{tag}", p))
    d = chem.snap_diff(snap_src, chem.snapshot(src))
    if d:
        fails.append(Fail(f"copying-altered-source:{tag}", d))
    if fails:
        return fails

    # ---------------- shares nothing
    cs, cc = containers(src), containers(cp)
    if owner is not None:
        cs.update(containers(owner))
    shared = set(cs) & set(cc)
    if shared:
        w = cs[next(iter(shared))]
        kind = "attrib" if "attrib" in w else w.split("[")[0]
        fails.append(Fail(f"shared-mutable-state:{tag}:{kind}", f"source {w} is the same object as copy {cc[next(iter(shared))]}"))
    for n1_, a1 in arrays(src).items():
        for n2_, a2 in arrays(cp).items():
            if a1.size and a2.size and np.shares_memory(a1, a2):
                fails.append(Fail(f"shared-array-memory:{tag}:{n1_}", f"source.{n1_} shares memory with copy.{n2_}"))

    # ---------------- mutation on one side leaves the other side alone
    a, b = (cp, src) if side == "copy" else (src, cp)
    before = chem.snapshot(b)
    owner_before = chem.snapshot(owner) if owner is not None and side == "copy" else None
    try:
        mutate(a, recipe["mut"])
    except Exception as e:
        from vf.core import exc_sig

        s_ = exc_sig(e)
        if s_ is None:
            raise
        fails.append(Fail(f"mutation-raises:{tag}:{s_}", repr(e)[:300]))
        return fails
    d = chem.snap_diff(before, chem.snapshot(b))
    if d:
        head = d.split(":")[0]
        field = head.split("[")[0] + ("." + head.split(".")[-1] if "." in head and head.split("[")[0] in ("atoms", "bonds") else "")
        fails.append(Fail(f"mutating-{side}-changed-{'source' if side == 'copy' else 'copy'}:{tag}:{field}", d))
    if owner_before is not None:
        d = chem.snap_diff(owner_before, chem.snapshot(owner))
        if d:
            fails.append(Fail(f"mutating-copy-changed-source-ensemble:{tag}", d))
    p = None if (wrapped and b is src) else parents_ok(b, "untouched side after mutation")
    if p:
        fails.append(Fail(f"parent-or-index-wrong-after-mutation:{tag}", p))
    if not fails and side == "source" and (route in ("pickle", "deepcopy") or route.startswith("ctor:")):
        # the source was edited after the first copy: a second copy by the same route must show its CURRENT state
        try:
            cp2 = pickle.loads(pickle.dumps(src)) if route == "pickle" else _copy.deepcopy(src) if route == "deepcopy" else _cls(dst_cls)(src)
        except Exception as e:
            from vf.core import exc_sig

            return [Fail(f"second-copy-raises:{tag}:{exc_sig(e) or type(e).__name__}", repr(e)[:300])]
        snap2 = chem.snapshot(src)
        fields = expected_image(snap2, src_cls, route, dst_cls)
        exp = {k: snap2[k] for k in fields if k in snap2}
        if "cls" in fields and src_cls != "Conformer":
            exp["cls"] = snap2["cls"]
        d = chem.snap_diff(exp, chem.snapshot(cp2))
        if d:
            head = d.split(":")[0]
            field = head.split("[")[0] + ("." + head.split(".")[-1] if "." in head and head.split("[")[0] in ("atoms", "bonds") else "")
            fails.append(Fail(f"second-copy-after-editing-the-source-is-stale:{tag}:{field}", d))
    # de-duplicate by signature
    seen, out = set(), []
    for f in fails:
        if f.sig not in seen:
            seen.add(f.sig)
            out.append(f)
    return out


def classify(recipe):
    r = recipe["mol"]
    labels = [f"src={recipe['src_cls']}", f"route={recipe['route']}", f"side={recipe['side']}"] + sorted({"mut=" + m[0] for m in recipe["mut"]})
    has_attr = bool(r["attrib"]) or any(a["attrib"] for a in r["atoms"]) or any(b["attrib"] for b in r["bonds"])
    has_q = any(q != 0 for q in r["charges"]) or any(q != 0 for row in r.get("conf_charges", []) for q in row)
    if has_attr:
        labels.append("has_attrib")
    if "__implicit_hydrogens" in repr(r):
        labels.append("has_hydrogen_hints")
    nt = len(r["atoms"]) > 0 and (has_attr or has_q) and len(recipe["mut"]) > 0
    return nt, labels


_MUT = st.one_of(
    st.tuples(st.sampled_from(["atom_field", "bond_field"]), st.integers(0, 30), st.integers(0, 7)).map(list),
    st.tuples(st.sampled_from(["atom_attrib", "bond_attrib", "coords_inplace", "charges_inplace", "del_atom", "del_bond"]), st.integers(0, 30)).map(list),
    st.sampled_from([["atom_attrib_deep"], ["bond_attrib_deep"], ["mol_attrib"], ["mol_attrib_deep"], ["scalars"], ["add_atom"], ["add_h"], ["scale"], ["translate"], ["weights_inplace"]]),
    st.tuples(st.just("connect"), st.integers(0, 30), st.integers(0, 30)).map(list),
)


def _with_hints(r):
    # drawing-style hints on some atoms, consumed by add_implicit_hydrogens
    r = dict(r)
    atoms = []
    for i, a in enumerate(r["atoms"]):
        if i % 3 == 0 and a["el"] in (5, 6, 7, 8, 14, 15, 16):
            a = dict(a, attrib=dict(a["attrib"], __implicit_hydrogens=i % 3 + 1))
        atoms.append(a)
    r["atoms"] = atoms
    return r


def _finite_sometimes(r):
    return r


def strat(tier):
    molr = st.one_of(
        chem.ensemble_recipe(max_atoms=8, max_bonds=10, max_conf=3).map(_with_hints),
        chem.ensemble_recipe(max_atoms=8, max_bonds=10, max_conf=3, special_coords=False, min_atoms=1).map(_with_hints),
    )
    mol2 = chem.molecule_recipe(max_atoms=5, max_bonds=5, special_coords=False)

    def routes(src_cls):
        rs = ["pickle", "deepcopy"]
        if src_cls in CHAIN:
            rs += ["ctor:" + c for c in CHAIN] + ["ctor:" + src_cls] * 3
            if src_cls in ("Connectivity", "Structure", "Molecule"):
                rs += ["ctor:ConformerEnsemble"]
        if src_cls == "ConformerEnsemble":
            rs += ["ctor:ConformerEnsemble"] * 3 + ["ctor_list"] * 2
        if src_cls == "Conformer":
            rs += ["ctor:Molecule"] * 3 + ["ctor:Structure"]
        if src_cls in ("Structure", "Molecule", "Conformer"):
            rs += ["concat", "or", "concat3"]
        if src_cls in ("Structure", "Molecule"):
            rs += ["join", "join"]
        if src_cls in ("CartesianGeometry", "Structure", "Molecule", "ConformerEnsemble", "Conformer"):
            rs += ["ctor+arrays", "ctor+assign"]
        return rs

    @st.composite
    def case(draw):
        src_cls = draw(st.sampled_from(CLASSES))
        r = draw(molr)
        if src_cls == "Conformer" and len(r["confs"]) == 0:
            src_cls = "ConformerEnsemble"
        return {
            "src_cls": src_cls, "mol": r, "mol2": draw(mol2), "route": draw(st.sampled_from(routes(src_cls))),
            "mut": draw(st.lists(_MUT, min_size=1, max_size=5)), "side": draw(st.sampled_from(["copy", "copy", "source"])),
            "wrapped": draw(st.sampled_from([False, False, False, True])),
            "parallel": draw(st.sampled_from([0, 0, 1, 2, 3])), "rich": draw(st.sampled_from([False, False, True])), "bundle": draw(st.sampled_from([0, 0, 1, 2, 5])),
        }

    return case()


LEGS = [
    Leg("copy", check, classify, strategy=strat, n={"quick": 3000, "thorough": 40000}, shards={"quick": 16, "thorough": 32},
        rule="source generated (<=8 atoms, nested mutable attributes, __implicit_hydrogens hints, partial charges, 0-3 conformers) and realised as one of 7 classes; "
             "route in {copy constructor (same / wider / narrower class), pickle, deepcopy, concatenate, |, join at attachment points}; 1-5 mutations (fields, attrib depth 1/2, in-place arrays, add/del atoms and bonds, "
             "add_implicit_hydrogens, scale, translate) applied to the copy or to the source; non-trivial = >=1 atom, a non-empty attrib or non-zero partial charge, >=1 mutation"),
]
