"""C14 — a conformer ensemble stays rectangular and its conformers are live views.

An op list is interpreted on a ConformerEnsemble and on a model of three numpy arrays
(coords (nc,na,3), charges (nc,na), weights (nc,)); invariants after every step.
"""
from __future__ import annotations

import io
import itertools
import math
import os
import pickle

import numpy as np
from hypothesis import strategies as st

from vf import chem
from vf.core import Fail, Leg, HarnessError, exc_sig

LEVEL = "exploration"
ASSUMPTIONS = [
    "appended / extended geometries have the ensemble's atom count (callers' precondition)",
    "the weight / charge rows of appended conformers must EXIST; their values are compared only with what the source object carried (partial charges of a Molecule); a new weight may be any real number",
    "ConformerEnsemble(molecule) allocates one conformer; its coordinate values are not asserted (shapes are)",
]
_counter = itertools.count()


def _eq(a, b):
    return np.array_equal(np.asarray(a, dtype=float), np.asarray(b, dtype=float), equal_nan=True)


class Model:
    def __init__(self, ens):
        self.coords = np.array(ens.coords, dtype=float)
        self.charges = np.array(ens.atomic_charges, dtype=float)
        self.weights = np.array(ens.weights, dtype=float)
        self.known_w = np.ones(len(self.weights), dtype=bool)    # False: value unspecified until first observed
        self.known_q = np.ones(self.charges.shape[0], dtype=bool)

    @property
    def nc(self):
        return self.coords.shape[0]


def invariants(ens, model, step, op, full=False) -> list[Fail]:
    fails = []
    where = f"after step {step} ({op})"
    nc, na = model.nc, ens.n_atoms
    shp = (np.shape(ens.coords), np.shape(ens.atomic_charges), np.shape(ens.weights))
    want = ((nc, na, 3), (nc, na), (nc,))
    if shp != want or ens.n_conformers != nc:
        which = "coords" if shp[0] != want[0] else "atomic_charges" if shp[1] != want[1] else "weights" if shp[2] != want[2] else "n_conformers"
        return [Fail(f"not-rectangular:{which}:{op}", f"{where}: coords {shp[0]}, atomic_charges {shp[1]}, weights {shp[2]}, n_conformers {ens.n_conformers}; expected {want}")]
    if not _eq(ens.coords, model.coords):
        fails.append(Fail(f"coords-differ-from-model:{op}", where))
    for i in range(nc):
        if not model.known_q[i]:
            model.charges[i] = np.asarray(ens.atomic_charges[i], dtype=float)
            model.known_q[i] = True
        if not model.known_w[i]:
            w = float(ens.weights[i])
            if w != w:
                fails.append(Fail(f"weight-of-new-conformer-is-nan:{op}", where))
            model.weights[i] = w
            model.known_w[i] = True
    if not _eq(ens.atomic_charges, model.charges):
        fails.append(Fail(f"charges-differ-from-model:{op}", where))
    if not _eq(ens.weights, model.weights):
        fails.append(Fail(f"weights-differ-from-model:{op}", where))
    if fails:
        return fails
    for i in range(nc):
        try:
            cf = ens[i]
            if not _eq(cf.coords, model.coords[i]) or not _eq(cf.atomic_charges, model.charges[i]):
                return [Fail(f"conformer-view-differs:{op}", f"{where}: conformer {i}")]
            if cf.n_atoms != na or len(cf.atoms) != na or any(a is not b for a, b in zip(cf.atoms, ens.atoms)) or cf.n_bonds != ens.n_bonds:
                return [Fail(f"conformer-view-differs:atoms-or-bonds:{op}", f"{where}: conformer {i}")]
            if cf.name != ens.name or cf.charge != ens.charge or cf.mult != ens.mult:
                return [Fail(f"conformer-view-differs:name-charge-mult:{op}", f"{where}: conformer {i}")]
        except Exception as e:
            s = exc_sig(e)
            if s is None:
                raise
            return [Fail(f"conformer-access-raises:{s}", f"{where}: conformer {i}: {e!r}")]
    return []


def build_geom(r, kind):
    import molli as ml

    cls = {"Molecule": ml.Molecule, "Structure": ml.Structure, "CartesianGeometry": ml.CartesianGeometry}[kind]
    if cls is ml.CartesianGeometry:
        atoms = chem.build_atoms(r)
        return cls(atoms, coords=np.array(r["coords"], dtype=float).reshape((len(atoms), 3)))
    return chem.build_molecule(r, cls)


def _frame(base, k, na):
    """k-th extra geometry for an ensemble of na atoms (deterministic values)"""
    r = dict(base)
    r["coords"] = [[0.25 * (k + 1) + i, -0.5 * i + k, 0.125 * k * (i + 1)] for i in range(na)]
    r["charges"] = [0.01 * (k + 1) * (i + 1) for i in range(na)]
    r["bonds"] = []
    return r


def check(recipe) -> list[Fail]:
    import molli as ml
    from molli.chem.io import _serialize_ens_v2, _deserialize_ens_v2

    base = recipe["mol"]
    na = len(base["atoms"])
    how = recipe["construct"]
    try:
        if how == "recipe":
            ens = chem.build_ensemble(base)
        elif how == "from_ensemble":
            src_ens = chem.build_ensemble(base)
            ens = ml.ConformerEnsemble(src_ens)
        elif how == "from_molecule":
            ens = ml.ConformerEnsemble(chem.build_molecule(base, ml.Molecule))
        elif how == "from_molecule_n":
            # the pattern of the conformer-search drivers: room for k conformers of one molecule
            ens = ml.ConformerEnsemble(chem.build_molecule(base, ml.Molecule), n_conformers=1 + len(base["confs"]))
        elif how == "from_molecule_list":
            nfr = max(1, len(base["confs"]))
            mols = [chem.build_molecule(dict(base, coords=base["confs"][k] if base["confs"] else base["coords"], charges=(base["conf_charges"][k] if base["confs"] else base["charges"])), ml.Molecule) for k in range(nfr)]
            ens = ml.ConformerEnsemble(mols)
        elif how == "n_only":
            ens = ml.ConformerEnsemble(None, n_conformers=len(base["confs"]), n_atoms=na)
        elif how == "elements":
            ens = ml.ConformerEnsemble([a["el"] for a in base["atoms"]] or None, n_conformers=len(base["confs"]))
        else:
            raise HarnessError("bad construct")
    except HarnessError:
        raise
    except Exception as e:
        s = exc_sig(e)
        if s is None:
            raise
        return [Fail(f"construction-raises:{how}:{s}", repr(e)[:300])]
    shp = (np.shape(ens.coords), np.shape(ens.atomic_charges), np.shape(ens.weights))
    nc0 = shp[0][0] if len(shp[0]) == 3 else -1
    if shp != ((nc0, ens.n_atoms, 3), (nc0, ens.n_atoms), (nc0,)):
        return [Fail(f"not-rectangular:construction:{how}", f"coords {shp[0]}, atomic_charges {shp[1]}, weights {shp[2]}, {ens.n_atoms} atoms")]
    model = Model(ens)
    na = ens.n_atoms
    fails = invariants(ens, model, -1, "construct:" + how)
    if fails:
        return fails
    extra = itertools.count()
    held = []
    sources = []
    if how == "from_ensemble":
        # the ensemble that was copy-constructed from must stay untouched by everything done to the copy
        sources.append((src_ens, np.array(src_ens.coords, dtype=float), -1))
        src_qw = (src_ens, np.array(src_ens.atomic_charges, dtype=float), np.array(src_ens.weights, dtype=float))
    else:
        src_qw = None
    for step, op in enumerate(recipe["ops"]):
        name = op[0]
        nc = model.nc
        try:
            if name == "append":
                k = next(extra)
                g = build_geom(_frame(base, k, na), op[1])
                ens.append(g)
                sources.append((g, np.array(g.coords, dtype=float), step))
                model.coords = np.concatenate([model.coords.reshape((nc, na, 3)), np.asarray(g.coords, dtype=float)[None]], axis=0)
                has_q = hasattr(g, "atomic_charges")
                model.charges = np.concatenate([model.charges.reshape((nc, na)), (np.asarray(g.atomic_charges, dtype=float) if has_q else np.zeros(na))[None]], axis=0)
                model.known_q = np.append(model.known_q, has_q)
                model.weights = np.append(model.weights, 0.0)
                model.known_w = np.append(model.known_w, False)
                name = f"append[{op[1]}]"
            elif name == "append_own":
                # one of the ensemble's OWN conformers is appended (duplicate the last frame, then edit it): the handle is taken by a
                # positive or a negative index; the new row is a copy of that row as it was
                if nc == 0:
                    continue
                i = op[1] % nc
                neg = bool(op[2] % 2)
                ens.append(ens[i - nc if neg else i])
                model.coords = np.concatenate([model.coords.reshape((nc, na, 3)), model.coords.reshape((nc, na, 3))[i][None]], axis=0)
                model.charges = np.concatenate([model.charges.reshape((nc, na)), model.charges.reshape((nc, na))[i][None]], axis=0)
                model.known_q = np.append(model.known_q, model.known_q[i])
                model.weights = np.append(model.weights, 0.0)
                model.known_w = np.append(model.known_w, False)
                name = f"append_own[{'negative' if neg else 'positive'}-index]"
            elif name == "extend":
                m = 1 + op[2] % 3
                geoms = [build_geom(_frame(base, next(extra), na), "Molecule") for _ in range(m)]
                sources.extend((g_, np.array(g_.coords, dtype=float), step) for g_ in geoms)
                if op[1] == "ensemble":
                    src = ml.ConformerEnsemble(geoms)
                    src.weights = np.arange(2.0, 2.0 + m)
                    ens.extend(src)
                    neww, knownw = np.arange(2.0, 2.0 + m), np.ones(m, dtype=bool)
                else:
                    ens.extend(geoms if op[1] == "list" else iter(geoms))
                    neww, knownw = np.zeros(m), np.zeros(m, dtype=bool)
                model.coords = np.concatenate([model.coords.reshape((nc, na, 3))] + [np.asarray(g.coords, dtype=float)[None] for g in geoms], axis=0)
                model.charges = np.concatenate([model.charges.reshape((nc, na))] + [np.asarray(g.atomic_charges, dtype=float)[None] for g in geoms], axis=0)
                model.known_q = np.append(model.known_q, np.ones(m, dtype=bool))
                model.weights = np.append(model.weights, neww)
                model.known_w = np.append(model.known_w, knownw)
                name = f"extend[{op[1]}]"
            elif name in ("append_wrong_size", "extend_wrong_size"):
                if nc == 0 and na == 0:
                    continue       # the empty ensemble adopts whatever comes first
                bad = build_geom(_frame(dict(base, atoms=base["atoms"] + [base["atoms"][0] if base["atoms"] else {"el": 6, "iso": None, "label": None, "atype": 1, "stereo": 0, "geom": 0, "fc": 0, "fs": 0, "attrib": {}}]), 99, na + 1), "Molecule")
                try:
                    if name == "append_wrong_size":
                        ens.append(bad)
                    else:
                        ens.extend([bad])
                    accepted = True
                except Exception:
                    accepted = False
                if accepted and np.shape(ens.coords)[0] != nc:
                    return [Fail(f"geometry-with-wrong-atom-count-accepted:{name}", f"step {step}: {na + 1} atoms into an ensemble of {na}")]
                name = name + "(rejected)"
            elif name == "scale":
                ens.scale(op[1])
                model.coords = model.coords * op[1]
            elif name == "translate1":
                ens.translate(np.array(op[1], dtype=float))
                model.coords = model.coords + np.array(op[1], dtype=float)
            elif name == "translate2":
                if nc == 0:
                    continue
                v = np.array([[op[1][0] * (i + 1), op[1][1], op[1][2] - i] for i in range(nc)], dtype=float)
                ens.translate(v)
                model.coords = model.coords + v[:, None, :]
            elif name == "rotate":
                from vf.props.c11 import _proper_R

                R = _proper_R(op[1])
                ens.rotate(R)
                model.coords = model.coords @ R
            elif name == "rotate_stack":
                # one matrix per conformer (what the alignment code hands to rotate): row c becomes coords[c] @ R[c]
                if nc == 0:
                    continue
                from vf.props.c11 import _proper_R

                Rs = np.array([_proper_R(op[1] + 7 * c) for c in range(nc)])
                ens.rotate(Rs)
                model.coords = np.array([model.coords[c] @ Rs[c] for c in range(nc)]).reshape((nc, na, 3))
            elif name == "blank_collect":
                # frames collected into a BLANK ensemble (ConformerEnsemble() adopts the size of what comes first): charge-less geometries
                # first, a molecule afterwards - the three arrays describe the same conformers and atoms after every append
                k_at = 1 + op[1] % 4
                blank = ml.ConformerEnsemble()
                for j_, kind_ in enumerate(["CartesianGeometry", "CartesianGeometry", "Molecule"][: 2 + op[1] % 2]):
                    g_ = (ml.CartesianGeometry if kind_ == "CartesianGeometry" else ml.Molecule)(["C"] * k_at, coords=[[0.5 * j_ + i_, -1.0 * i_, 0.25] for i_ in range(k_at)])
                    blank.append(g_)
                    shp_ = (np.shape(blank.coords), np.shape(blank.atomic_charges), np.shape(blank.weights))
                    if shp_ != ((j_ + 1, k_at, 3), (j_ + 1, k_at), (j_ + 1,)):
                        return [Fail("not-rectangular:blank-ensemble-collecting-frames", f"step {step}: after {j_ + 1} append(s) of {k_at}-atom {kind_}: coords {shp_[0]}, atomic_charges {shp_[1]}, weights {shp_[2]}")]
                continue
            elif name == "rotate_bad_stack":
                # a stack of matrices of the WRONG length (one too many / two too many): refused, or at any rate the three arrays still
                # describe the same conformers afterwards
                if nc == 0:
                    continue
                from vf.props.c11 import _proper_R

                Rs = np.array([_proper_R(op[1] + 3 * c) for c in range(nc + 1 + op[1] % 2)])
                try:
                    ens.rotate(Rs)
                    accepted = True
                except Exception:
                    accepted = False
                if accepted:
                    if np.shape(ens.coords) != (nc, na, 3) or np.shape(ens.atomic_charges) != (nc, na) or np.shape(ens.weights) != (nc,):
                        return [Fail("rotation-stack-of-wrong-length-breaks-the-rectangle", f"step {step}: {len(Rs)} matrices for {nc} conformer(s); coords now {np.shape(ens.coords)}, charges {np.shape(ens.atomic_charges)}, weights {np.shape(ens.weights)}")]
                    model.coords = np.array(ens.coords, dtype=float)     # (what an accepting implementation makes of it is its own business)
                name = "rotate_bad_stack(rejected)" if not accepted else "rotate_bad_stack(accepted)"
            elif name in ("write_coord", "write_coords_setter", "write_charge", "write_atom_field"):
                if nc == 0 or na == 0:
                    continue
                i, j = op[1] % nc, op[2] % na
                neg = (op[1] + op[2]) % 3 == 0
                cf = ens[i - nc if neg else i]      # row i by its negative or its positive index
                if not np.array_equal(np.asarray(cf.coords, dtype=float), model.coords[i], equal_nan=True):
                    return [Fail("conformer-does-not-show-its-row", f"step {step}: ens[{i - nc if neg else i}] of {nc} conformers does not read row {i}")]
                if not neg:
                    held.append((cf, i))     # (a handle taken by negative index is relative to the end: used at once only)
                    del held[:-3]
                if name == "write_coord":
                    cf.coords[j] = [op[3], -op[3], 2 * op[3]]
                    model.coords[i, j] = [op[3], -op[3], 2 * op[3]]
                elif name == "write_coords_setter":
                    new = np.full((na, 3), op[3])
                    cf.coords = new
                    model.coords[i] = new
                elif name == "write_charge":
                    cf.atomic_charges[j] = op[3]
                    model.charges[i, j] = op[3]
                else:
                    cf.atoms[j].label = f"W{step}"
                    if ens.atoms[j].label != f"W{step}":
                        return [Fail("write-through-conformer-atom-not-visible-in-ensemble", f"step {step}")]
            elif name == "oob_write":
                # an integer locator outside [-n, n) names no conformer: whatever the library does with it (refuse at once, hand out
                # a handle that refuses every access), a write through it never lands in one of the n rows that exist
                if na == 0:
                    continue
                idx = [nc, nc + 1, nc + 2, -nc - 1, -nc - 2, 2 * nc + 1][op[1] % 6]
                try:
                    bad = ens[idx]
                    bad.coords[op[2] % na] = [9.25, -9.25, 9.25]
                except Exception:
                    pass
                try:
                    bad = ens[idx]
                    bad.coords = np.full((na, 3), -3.75)
                except Exception:
                    pass
                try:
                    bad = ens[idx]
                    bad.atomic_charges[op[2] % na] = 4.5
                except Exception:
                    pass
            elif name == "orphan":
                # conformers that outlive every other reference to their ensemble (slice of a temporary copy, unpickled conformer):
                # they keep working and show the rows they were taken from
                if nc == 0:
                    continue
                import gc
                i0 = op[1] % nc
                tmp_cfs = ml.ConformerEnsemble(ens)[i0:i0 + 2]
                one = pickle.loads(pickle.dumps(ens[i0]))
                gc.collect()
                for k_, cf_ in enumerate(list(tmp_cfs) + [one]):
                    row = i0 + k_ if k_ < len(tmp_cfs) else i0
                    if not np.array_equal(np.asarray(cf_.coords, dtype=float), model.coords[row], equal_nan=True):
                        return [Fail("orphaned-conformer-does-not-show-its-row", f"step {step}: row {row}")]
                    if na and np.all(np.isfinite(model.coords[row])):
                        cf_.dumps_xyz()
                    cf_.coords[...] = 0.0      # writing into the orphan must not reach the live ensemble
            elif name == "use_held":
                # a conformer handle taken EARLIER (before later appends / extends / transformations) is used now: still row i, live
                if not held or na == 0:
                    continue
                cf, i = held[op[1] % len(held)]
                j = op[2] % na
                if not np.array_equal(np.asarray(cf.coords, dtype=float), model.coords[i], equal_nan=True):
                    return [Fail("held-conformer-handle-no-longer-shows-its-row", f"step {step}: handle of row {i} taken earlier reads other values than ens.coords[{i}] holds")]
                cf.coords[j] = [op[3], 2 * op[3], -op[3]]
                model.coords[i, j] = [op[3], 2 * op[3], -op[3]]
                cf.atomic_charges[j] = op[3]
                model.charges[i, j] = op[3]
            elif name == "iterate":
                kind = op[1]
                ids = list(range(nc))
                if kind == "plain":
                    got = [c._conf_id for c in ens]
                    ok = got == ids
                elif kind == "nested":
                    got = [(a._conf_id, b._conf_id) for a in ens for b in ens]
                    ok = got == [(a, b) for a in ids for b in ids]
                elif kind == "interleaved":
                    it1, it2 = iter(ens), iter(ens)
                    got = []
                    for _ in range(nc):
                        got.append((next(it1)._conf_id, next(it2)._conf_id))
                    rest = [c._conf_id for c in it1] + [c._conf_id for c in it2]
                    ok = got == [(a, a) for a in ids] and rest == []
                elif kind == "zip":
                    got = [(a._conf_id, b._conf_id) for a, b in zip(ens, ens)]
                    ok = got == [(a, a) for a in ids]
                elif kind == "collect":
                    # the conformers of a pass are kept (list(ens), sorted(ens, key=...)) and looked at AFTER the pass
                    cfs = list(ens)
                    got = [c._conf_id for c in cfs]
                    ok = len(cfs) == nc and len({id(c) for c in cfs}) == nc and all(
                        np.array_equal(np.asarray(c.coords, dtype=float), model.coords[i_], equal_nan=True) for i_, c in enumerate(cfs))
                elif kind == "break_then_full":
                    for c in ens:
                        break
                    got = [c._conf_id for c in ens]
                    ok = got == ids
                else:
                    raise HarnessError("bad iterate kind")
                if not ok:
                    return [Fail(f"iteration-wrong:{kind}", f"step {step}: {nc} conformers, visited {str(got)[:200]}")]
                name = f"iterate[{kind}]"
            elif name == "slice":
                if len(op) > 3 and op[3]:
                    # any slice a list accepts: negative bounds, negative step, open ends
                    def bnd(v):
                        return None if v % 7 == 0 else (v % (2 * nc + 3)) - (nc + 1)
                    sobj = slice(bnd(op[1]), bnd(op[2]), [None, 1, 2, -1, -2][op[3] % 5])
                else:
                    sobj = slice(op[1] % (nc + 1), (op[1] % (nc + 1)) + op[2] % 4)
                sl = ens[sobj]
                exp = list(range(nc))[sobj]
                if len(sl) != len(exp) or any(not np.array_equal(np.asarray(c.coords, dtype=float), model.coords[i_], equal_nan=True) for c, i_ in zip(sl, exp)):
                    return [Fail("slice-wrong", f"step {step}: ens[{sobj.start}:{sobj.stop}:{sobj.step}] of {nc} conformers gave {len(sl)} conformers, rows {exp} expected")]
            elif name == "dump":
                if nc == 0:
                    continue
                finite = np.all(np.isfinite(model.coords))
                for i in range(nc):
                    t_xyz = ens[i].dumps_xyz()
                    t_m2 = ens[i].dumps_mol2()
                    if na and finite:
                        back = ml.Molecule.loads_xyz(t_xyz)
                        if back.n_atoms != na or not np.allclose(back.coords, model.coords[i], atol=1e-6, rtol=0):
                            return [Fail("conformer-dump-does-not-read-back-as-its-row:xyz", f"step {step} conformer {i}")]
                        if op[1] == "mol2":
                            b2 = ml.Molecule.loads_mol2(t_m2)
                            if b2.n_atoms != na or not np.allclose(b2.coords, model.coords[i], atol=1e-6, rtol=0) or not np.allclose(b2.atomic_charges, model.charges[i], atol=6e-4, rtol=0):
                                return [Fail("conformer-dump-does-not-read-back-as-its-row:mol2", f"step {step} conformer {i}")]
                            # a conformer is a full molecule view: it goes by the name of its ensemble (when that is a plain one-line name)
                            nm_ = ens.name
                            if isinstance(nm_, str) and nm_.strip() == nm_ and nm_ and nm_.isascii() and nm_.isprintable() and not nm_.startswith(("#", "@")) and ens[i].name == nm_ and b2.name != nm_:
                                return [Fail("conformer-written-under-another-name:mol2", f"step {step} conformer {i}: ensemble {nm_!r}, written conformer reads back as {b2.name!r}")]
                txt = ens.dumps_xyz()
                if na and finite and len(ml.Molecule.loads_all_xyz(txt)) != nc:
                    return [Fail("ensemble-dump-frame-count", f"step {step}")]
                if na and finite and op[1] == "mol2":
                    # the ensemble-level mol2 writer: block i is conformer i - its coordinates AND its partial charges
                    blocks = ml.Molecule.loads_all_mol2(ens.dumps_mol2())
                    if len(blocks) != nc:
                        return [Fail("ensemble-dump-frame-count:mol2", f"step {step}: {len(blocks)} blocks for {nc} conformers")]
                    for i, b_ in enumerate(blocks):
                        if b_.n_atoms != na or not np.allclose(b_.coords, model.coords[i], atol=1e-6, rtol=0) or not np.allclose(b_.atomic_charges, model.charges[i], atol=6e-4, rtol=0):
                            return [Fail("ensemble-dump-block-is-not-its-conformer:mol2", f"step {step} block {i} of {nc}")]
            elif name == "serialise":
                via = op[1]
                if via == "codec":
                    back = _deserialize_ens_v2(_serialize_ens_v2(ens))
                elif via == "pickle":
                    back = pickle.loads(pickle.dumps(ens))
                elif via == "library":
                    import atexit

                    d = os.path.join(os.environ["VF_SCRATCH"], "c14")
                    os.makedirs(d, exist_ok=True)
                    p = os.path.join(d, f"{os.getpid()}-{next(_counter)}.clib")
                    try:
                        lib = ml.ConformerLibrary(p, readonly=False)
                        atexit.unregister(lib._backend.flush)
                        with lib.writing():
                            lib["e"] = ens
                        with lib.reading():
                            back = lib["e"]
                    finally:
                        try:
                            os.unlink(p)
                        except OSError:
                            pass
                else:
                    raise HarnessError("bad via")
                f32 = via != "pickle"
                exp = (chem.arr_f32(model.coords), chem.arr_f32(model.charges), chem.arr_f32(model.weights)) if f32 else (model.coords, model.charges, model.weights)
                # make sure unspecified rows are fixed before comparing
                fl = invariants(ens, model, step, name)
                if fl:
                    return fl
                exp = (chem.arr_f32(model.coords), chem.arr_f32(model.charges), chem.arr_f32(model.weights)) if f32 else (model.coords, model.charges, model.weights)
                got = (np.asarray(back.coords), np.asarray(back.atomic_charges), np.asarray(back.weights))
                for nm, e_, g_ in zip(("coords", "atomic_charges", "weights"), exp, got):
                    if np.shape(g_) != np.shape(e_) or not np.array_equal(np.asarray(g_, dtype=float), np.asarray(e_, dtype=float), equal_nan=True):
                        return [Fail(f"serialised-ensemble-differs:{via}:{nm}", f"step {step}: shape {np.shape(g_)} vs {np.shape(e_)}")]
                name = f"serialise[{via}]"
                if len(op) > 2 and op[2]:
                    held.clear()
                    # the history goes on with the object that came BACK (a reloaded ensemble is an ensemble like any other)
                    ens = back
                    if f32:
                        model.coords = np.asarray(chem.arr_f32(model.coords), dtype=float).reshape(model.coords.shape)
                        model.charges = np.asarray(chem.arr_f32(model.charges), dtype=float).reshape(model.charges.shape)
                        model.weights = np.asarray(chem.arr_f32(model.weights), dtype=float).reshape(model.weights.shape)
                    src_qw = None
                    name += "+continue"
            else:
                raise HarnessError(f"unknown op {name}")
        except HarnessError:
            raise
        except Exception as e:
            s = exc_sig(e)
            if s is None:
                raise
            return [Fail(f"operation-raises:{name if isinstance(name, str) else op[0]}:{s}", f"step {step}: {e!r}"[:300])]
        fails = invariants(ens, model, step, name)
        if fails:
            return fails
        # "nothing else changes": the geometries that were appended / extended from are not views of the ensemble
        for (g, c0, when) in sources:
            if not np.array_equal(np.asarray(g.coords, dtype=float), c0, equal_nan=True):
                return [Fail(f"source-geometry-changed-by-later-operation:{name.split('[')[0]}", f"step {step} ({name}): the geometry handed to the ensemble at step {when} changed (max {np.nanmax(np.abs(np.asarray(g.coords, dtype=float) - c0)):.3g})")]
        if src_qw is not None and not (np.array_equal(src_qw[0].atomic_charges, src_qw[1], equal_nan=True) and np.array_equal(src_qw[0].weights, src_qw[2], equal_nan=True)):
            return [Fail(f"source-ensemble-charges-or-weights-changed-by-later-operation:{name.split('[')[0]}", f"step {step} ({name})")]
    return []


def classify(recipe):
    ops = recipe["ops"]
    names = [o[0] for o in ops]
    labels = ["construct=" + recipe["construct"]] + sorted({"op=" + (o[0] if o[0] not in ("iterate", "append", "extend", "serialise") else f"{o[0]}[{o[1]}]") for o in ops})
    grow = [i for i, n in enumerate(names) if n in ("append", "extend")]
    after = any(n in ("write_coord", "write_charge", "write_coords_setter", "dump", "serialise", "iterate", "slice") for n in names[grow[0] + 1:]) if grow else False
    nested = any(o[0] == "iterate" and o[1] in ("nested", "interleaved", "zip") for o in ops) and (len(recipe["mol"]["confs"]) >= 2 or bool(grow))
    return (bool(grow) and after) or nested, labels


def _clean(r):
    r = dict(r)

    def cl(x):
        return 0.5 if (x != x or math.isinf(x)) else max(-99.0, min(99.0, x))

    r["coords"] = [[cl(x) for x in c] for c in r["coords"]]
    r["confs"] = [[[cl(x) for x in c] for c in f] for f in r["confs"]]
    for a in r["atoms"]:
        a["label"] = None
    return r


def strat(tier):
    ensr = chem.ensemble_recipe(max_atoms=6, max_bonds=5, max_conf=4, attribs=False, mol2_safe=True).map(_clean)
    i = st.integers(0, 50)
    f = st.floats(-5, 5, width=32)
    op = st.one_of(
        st.tuples(st.just("append"), st.sampled_from(["Molecule", "Structure", "CartesianGeometry"])).map(list),
        st.tuples(st.just("extend"), st.sampled_from(["list", "ensemble", "iterator"]), i).map(list),
        st.tuples(st.just("scale"), st.sampled_from([0.5, 2.0, 1.25])).map(list),
        st.sampled_from([["append_wrong_size"], ["extend_wrong_size"]]),
        st.tuples(st.sampled_from(["translate1", "translate2"]), st.lists(f, min_size=3, max_size=3)).map(list),
        st.tuples(st.sampled_from(["rotate", "rotate_stack"]), i).map(list),
        st.tuples(st.sampled_from(["write_coord", "write_coords_setter", "write_charge", "write_atom_field", "use_held"]), i, i, f).map(list),
        st.tuples(st.just("iterate"), st.sampled_from(["plain", "nested", "interleaved", "zip", "break_then_full", "collect"])).map(list),
        st.tuples(st.just("slice"), i, i, st.integers(0, 5)).map(list),
        st.tuples(st.just("orphan"), i).map(list),
        st.tuples(st.just("oob_write"), i, i).map(list),
        st.tuples(st.just("append_own"), i, i).map(list),
        st.tuples(st.just("rotate_bad_stack"), i).map(list),
        st.tuples(st.just("blank_collect"), i).map(list),
        st.tuples(st.just("dump"), st.sampled_from(["xyz", "mol2"])).map(list),
        st.tuples(st.just("serialise"), st.sampled_from(["codec", "pickle", "library"]), st.booleans()).map(list),
    )
    return st.fixed_dictionaries({
        "construct": st.sampled_from(["recipe", "recipe", "from_ensemble", "from_molecule", "from_molecule_n", "from_molecule_list", "n_only", "elements"]),
        "mol": ensr, "ops": st.lists(op, min_size=1, max_size=30 if tier != "quick" else 16),
    })


LEGS = [
    Leg("hist", check, classify, strategy=strat, n={"quick": 3000, "thorough": 40000}, shards={"quick": 16, "thorough": 32},
        rule="generated ensembles (0-6 atoms, 0-4 conformers) built by 6 constructor routes, then <=16/30 ops over append (Molecule / Structure / CartesianGeometry), extend (list / ensemble / iterator), scale, translate 1-D/2-D, rotate, "
             "writes through ens[i] (element, setter, charge, atom field), iteration (plain, nested, interleaved iter(), zip, break-then-full), slice, per-conformer dump + read back, serialise (v2 codec, pickle, library); "
             "non-trivial = an append/extend followed by an access to the grown ensemble, or a nested/interleaved iteration with >=2 conformers"),
]
