"""C13 — CDXML parsing reproduces the drawing: constitution, charges, and handedness.

Inputs: every labelled fragment of the 7 bundled .cdxml files, and generated variants of those files
(stereo marks mirrored, top-level objects permuted, page translated, node / bond ids renumbered,
<n> children permuted), written to temporary files.
Oracles
  constitution  independent ElementTree walk (own code) -> attributed graph; networkx isomorphism with
                element / isotope / charge / radical / attachment-point / hydrogen-hint / bond-type matching
  mirror        wedge<->hash: constitution isomorphic, handedness of every non-flat centre inverted
  determinism   same file parsed twice under different np.random states -> identical coordinates
  labels        in every variant each label resolves to a fragment isomorphic to the original's
"""
from __future__ import annotations

import copy
import itertools
import math
import os
import shutil
import warnings
import xml.etree.ElementTree as ET

import numpy as np
from hypothesis import strategies as st

from vf.core import Fail, Leg, HarnessError, tally, exc_sig

LEVEL = "exploration"
ASSUMPTIONS = [
    "atoms bonded to multi-attachment (hapto) centres are excluded from the handedness relation (property text)",
    "a centre is non-planar when max(|h|,|h'|) >= 0.05 (h = determinant of the unit neighbour vectors for 3 neighbours, signed volume of the neighbour tetrahedron for 4)",
    "Radical: Doublet -> spin 1, Singlet -> spin 2 as pinned by the repository's own test; other values do not occur in the bundled files",
    "labels of Nickname / Fragment placeholder atoms are XML ids and legitimately change under renumbering: labels are not compared",
]
FILES = ["BOX_4_position", "BOX_cores", "BOX_bridge", "charges_mult_cdxml", "parser_demo_cdxml", "parser_demo2_cdxml", "substituents_cdxml"]
MIRROR = {"WedgeBegin": "WedgedHashBegin", "WedgedHashBegin": "WedgeBegin", "WedgeEnd": "WedgedHashEnd", "WedgedHashEnd": "WedgeEnd", "Bold": "Hash", "Hash": "Bold"}
_counter = itertools.count()


def _tmpdir():
    d = os.path.join(os.environ["VF_SCRATCH"], "c13", f"{os.getpid()}-{next(_counter)}")
    os.makedirs(d, exist_ok=True)
    return d


# ---------------------------------------------------------------- independent walk of the drawing
def walk(frag):
    """fragment element -> networkx graph of the drawn constitution (nested fragments expanded)"""
    import networkx as nx

    g = nx.Graph()
    multi = {}
    nested = []
    for n in frag.findall("./n"):
        nid = n.get("id")
        nt = n.get("NodeType")
        if nt == "MultiAttachment":
            multi[nid] = n.get("Attachments").split()
            continue
        el = int(n.get("Element")) if n.get("Element") else 6
        ap = nt in ("ExternalConnectionPoint", "Fragment", "Nickname", "GenericNickname", "Unspecified")
        if ap:
            el = 0
        rad = {"Doublet": 1, "Singlet": 2}.get(n.get("Radical"), 0)
        hint = int(n.get("NumHydrogens")) if n.get("NumHydrogens") is not None else None   # "0" is a hint too: explicitly no hydrogens
        g.add_node(nid, el=el, iso=int(n.get("Isotope")) if n.get("Isotope") is not None else None, q=int(n.get("Charge", 0)), spin=rad, ap=ap, hint=hint,
                   order=len(g), hapto=False)
        if n.find("./fragment") is not None:
            nested.append((nid, n.find("./fragment")))
    for b in frag.findall("./b"):
        B, E = b.get("B"), b.get("E")
        if B in multi or E in multi:
            centre, att = (E, multi[B]) if B in multi else (B, multi[E])
            g.nodes[centre]["hapto"] = True
            for t in att:
                g.add_edge(centre, t, bt=98)
            continue
        o = b.get("Order")
        bt = 1 if o is None else 20 if o == "1.5" else int(o)
        if b.get("Display") == "Dash":
            bt = 98
        g.add_edge(B, E, bt=bt)
    # expand nested fragments: the placeholder and the inner fragment's first attachment point disappear,
    # their neighbours get bonded (single)
    for nid, sub in nested:
        inner = walk(sub)
        aps = sorted((d["order"], k) for k, d in inner.nodes(data=True) if d["ap"])
        if not aps:
            raise HarnessError("nested fragment without attachment point")
        iap = aps[0][1]
        (inb,) = list(inner.neighbors(iap))
        (outb,) = list(g.neighbors(nid))
        inner.remove_node(iap)
        g.remove_node(nid)
        base = len(g)
        ren = {k: f"{nid}/{k}" for k in inner.nodes}
        inner = nx.relabel_nodes(inner, ren)
        for k, d in inner.nodes(data=True):
            d["order"] = base + d["order"]
        g = nx.union(g, inner)
        g.add_edge(outb, ren[inb], bt=1)
    return g


def mol_graph(m):
    import networkx as nx
    from molli.chem import AtomType

    g = nx.Graph()
    for i, a in enumerate(m.atoms):
        g.add_node(i, el=int(a.element), iso=a.isotope, q=a.formal_charge, spin=a.formal_spin, ap=(a.atype == AtomType.AttachmentPoint), hint=a.attrib.get("__implicit_hydrogens"))
    idx = {id(a): i for i, a in enumerate(m.atoms)}
    for b in m.bonds:
        g.add_edge(idx[id(b.a1)], idx[id(b.a2)], bt=int(b.btype))
    return g


def _nm(a, b):
    return (a["el"], a["iso"], a["q"], a["spin"], a["ap"], a["hint"]) == (b["el"], b["iso"], b["q"], b["spin"], b["ap"], b["hint"])


def _em(a, b):
    return a["bt"] == b["bt"]


def iso(g1, g2):
    import networkx as nx

    if g1.number_of_nodes() != g2.number_of_nodes() or g1.number_of_edges() != g2.number_of_edges():
        return False
    return nx.is_isomorphic(g1, g2, node_match=_nm, edge_match=_em)


def describe(g):
    from collections import Counter

    return (f"{g.number_of_nodes()} atoms {dict(Counter(d['el'] for _, d in g.nodes(data=True)))}, {g.number_of_edges()} bonds {dict(Counter(d['bt'] for *_, d in g.edges(data=True)))}, "
            f"charge {sum(d['q'] for _, d in g.nodes(data=True))}, spin {sum(d['spin'] for _, d in g.nodes(data=True))}")


# ---------------------------------------------------------------- handedness
def handed(m):
    """centre index -> h for every centre with 3 or 4 neighbours, none of them (nor itself) a hapto centre"""
    from molli.chem import AtomType, BondType

    out = {}
    hapto = {id(a) for a in m.atoms if a.atype == AtomType.CoordinationCenter}
    for i, a in enumerate(m.atoms):
        nb = list(m.connected_atoms(a))
        if len(nb) not in (3, 4) or id(a) in hapto or any(id(x) in hapto for x in nb):
            continue
        c = m.coords[i]
        vs = [m.coords[m.atoms.index(x)] - c for x in nb]
        if any(np.linalg.norm(v) < 1e-9 for v in vs):
            continue
        vs = [v / np.linalg.norm(v) for v in vs]
        if len(nb) == 3:
            h = float(np.linalg.det(np.array(vs)))
        else:
            h = float(np.linalg.det(np.array([vs[1] - vs[0], vs[2] - vs[0], vs[3] - vs[0]])))
        out[i] = h
    return out


def absolute_handedness(frag, m):
    """(centre index, expected sign, parsed h) for centres whose drawn configuration is unambiguous:
    the fragment has no nested fragments / multi-attachments (so atom i is the i-th <n>), the centre has 3-4
    neighbours, >=1 wedge/hash bond with its NARROW end at the centre, and no neighbour carries another stereo mark.
    Expected sign from the drawing alone: page x to the right, page y DOWN (so y is negated), wedge end towards the viewer (+z)."""
    nodes = frag.findall("./n")
    if any(n.get("NodeType") == "MultiAttachment" or n.find("./fragment") is not None for n in nodes):
        return []
    idx = {n.get("id"): i for i, n in enumerate(nodes)}
    if len(idx) != m.n_atoms:
        return []
    pos = {n.get("id"): tuple(map(float, n.get("p").split()[:2])) for n in nodes}
    nbrs = {k: [] for k in idx}
    marked = {k: 0 for k in idx}
    for b in frag.findall("./b"):
        B, E, d = b.get("B"), b.get("E"), b.get("Display")
        zB = zE = 0
        if d == "WedgeBegin":
            zE = +1
        elif d == "WedgedHashBegin":
            zE = -1
        elif d == "WedgeEnd":
            zB = +1
        elif d == "WedgedHashEnd":
            zB = -1
        elif d in ("Bold", "Hash"):
            marked[B] += 10
            marked[E] += 10
        if d in ("WedgeBegin", "WedgedHashBegin", "WedgeEnd", "WedgedHashEnd"):
            marked[B] += 1
            marked[E] += 1
        nbrs[B].append((E, zE, d))     # zE: elevation of E as seen from B when B is the narrow end
        nbrs[E].append((B, zB, d))
    out = []
    L = float(np.median([np.hypot(pos[a][0] - pos[b.get("B")][0], pos[a][1] - pos[b.get("B")][1]) for b in frag.findall("./b") for a in [b.get("E")]])) or 1.0
    for c, lst in nbrs.items():
        if len(lst) not in (3, 4):
            continue
        narrow = [(k, z) for (k, z, d) in lst if z != 0]
        if not narrow:
            continue
        # neighbours must carry no stereo mark other than the bond(s) to c; c itself only its own narrow-end marks
        if marked[c] != len(narrow) or any(marked[k] != (1 if z != 0 else 0) for (k, z, d) in lst):
            continue
        us = []
        for (k, z, d) in lst:
            us.append(np.array([pos[k][0] - pos[c][0], -(pos[k][1] - pos[c][1]), 0.8 * L * z]) / L)
        h_exp = float(np.linalg.det(np.array(us))) if len(us) == 3 else float(np.linalg.det(np.array([us[1] - us[0], us[2] - us[0], us[3] - us[0]])))
        vs = [m.coords[idx[k]] - m.coords[idx[c]] for (k, z, d) in lst]
        vs = [v / np.linalg.norm(v) for v in vs]
        h = float(np.linalg.det(np.array(vs))) if len(vs) == 3 else float(np.linalg.det(np.array([vs[1] - vs[0], vs[2] - vs[0], vs[3] - vs[0]])))
        if abs(h_exp) >= 0.1:
            out.append((idx[c], h_exp, h))
    return out


# ---------------------------------------------------------------- variants
def make_variant(src_path, ops, seed, out_path):
    rng = np.random.default_rng(seed)
    tree = ET.parse(src_path)
    root = tree.getroot()
    page = root.find("page")
    if "mirror" in ops:
        for b in root.iter("b"):
            d = b.get("Display")
            if d in MIRROR:
                b.set("Display", MIRROR[d])
    if "recharge" in ops:
        # formal charges / radicals re-drawn on some atoms of the page-level fragments (constitution otherwise untouched): the totals
        # must follow the drawing, also when a nested (contracted) fragment and the main fragment balance each other
        for fr in page.iter("fragment"):
            for nd in fr.findall("./n"):
                if nd.get("NodeType") in ("ExternalConnectionPoint", "MultiAttachment", "GenericNickname", "Unspecified"):
                    continue
                u = rng.random()
                if u < 0.12:
                    nd.set("Charge", str(int(rng.choice([-1, 1, 1, 2]))))
                elif u < 0.18 and nd.get("Charge"):
                    del nd.attrib["Charge"]
                elif u < 0.22 and nd.get("NodeType") is None:
                    nd.set("Radical", str(rng.choice(["Doublet", "Singlet"])))
    if "lone_ion" in ops:
        # a bond-less fragment (a lone counter-ion, not labelled) is stored as the FIRST object of the page, far away from every label:
        # it is no structure a label could name, and it does not change what the labels resolve to
        ion = ET.Element("fragment", {"id": "48001", "BoundingBox": "9000 9000 9010 9010"})
        ET.SubElement(ion, "n", {"id": "48002", "p": "9005 9005", "Element": "17", "Charge": "-1", "NumHydrogens": "0"})
        page.insert(0, ion)
    if "group_all" in ops:
        # every page-level fragment and label selected and grouped (ChemDraw's Group command): one <group> holding them all,
        # in stored or reversed order; which fragment a label names is still decided by the drawing (label under its fragment)
        kids = [k for k in list(page) if k.tag in ("fragment", "t")]
        if kids:
            grp = ET.Element("group", {"id": "49999"})
            pos0 = list(page).index(kids[0])
            for k in kids:
                page.remove(k)
            for k in (kids if seed % 2 else kids[::-1]):
                grp.append(k)
            page.insert(pos0, grp)
    if "permute_top" in ops:
        kids = list(page)
        for k in kids:
            page.remove(k)
        perm = rng.permutation(len(kids))
        for i in perm:
            page.append(kids[i])
    if "translate" in ops:
        dx, dy = [float(x) for x in rng.uniform(-200, 300, size=2).round(2)]
        for e in page.iter():
            if "p" in e.attrib:
                v = e.get("p").split()
                e.set("p", f"{float(v[0]) + dx:.2f} {float(v[1]) + dy:.2f}" + ("".join(" " + x for x in v[2:])))
            if "BoundingBox" in e.attrib:
                l, t, r, b_ = map(float, e.get("BoundingBox").split())
                e.set("BoundingBox", f"{l + dx:.2f} {t + dy:.2f} {r + dx:.2f} {b_ + dy:.2f}")
    if "renumber" in ops or "renumber_small" in ops:
        ids = sorted({e.get("id") for e in root.iter() if e.tag in ("n", "b") and e.get("id")}, key=int)
        used = {e.get("id") for e in root.iter() if e.get("id")}
        if "renumber_small" in ops:
            # a freshly drawn document numbers its objects from 1: node and bond ids are SMALL numbers (7, 8, 16 ... also atomic numbers)
            others = used - set(ids)
            pool = [str(x) for x in range(1, 4 * len(ids) + 400) if str(x) not in others][: len(ids)]
        else:
            pool = [str(x) for x in range(50000, 50000 + 3 * len(ids))]
        new = [pool[i] for i in rng.permutation(len(pool))[: len(ids)]]
        mp = dict(zip(ids, new))
        if "renumber_small" in ops:
            # ... and among small numbers the interesting coincidence is arranged on purpose: a contracted group (nickname) whose node id
            # equals the atomic number of a hetero atom drawn earlier in the same fragment (ids are unique, atomic numbers are not ids)
            inv = {v: k for k, v in mp.items()}
            for fr in root.iter("fragment"):
                kids = [c for c in fr if c.tag == "n" and c.get("id")]
                for gi, g in enumerate(kids):
                    if g.find("./fragment") is None:
                        continue
                    els = [c.get("Element") for c in kids[:gi] if c.get("Element") and c.get("Element") not in ("1", "6")]
                    for el in els:
                        if el in others or mp.get(g.get("id")) == el:
                            continue
                        # swap: whoever holds the number `el` now gets the group's number
                        cur = mp[g.get("id")]
                        holder = inv.get(el)
                        if holder is not None:
                            mp[holder], inv[cur] = cur, holder
                        mp[g.get("id")], inv[el] = el, g.get("id")
                        break
        for e in root.iter():
            if e.tag in ("n", "b") and e.get("id") in mp:
                e.set("id", mp[e.get("id")])
            for k in ("B", "E"):
                if e.get(k) in mp:
                    e.set(k, mp[e.get(k)])
            for k in ("Attachments", "BondOrdering", "BondCircularOrdering"):
                if e.get(k):
                    e.set(k, " ".join(mp.get(x, x) for x in e.get(k).split()))
    if "permute_nodes" in ops:
        for fr in root.iter("fragment"):
            ns = [c for c in list(fr) if c.tag == "n"]
            if len(ns) < 2:
                continue
            pos = [i for i, c in enumerate(list(fr)) if c.tag == "n"]
            perm = rng.permutation(len(ns))
            kids = list(fr)
            for p, j in zip(pos, perm):
                kids[p] = ns[j]
            for c in list(fr):
                fr.remove(c)
            for c in kids:
                fr.append(c)
    tree.write(out_path, encoding="UTF-8", xml_declaration=True)


def _rhash(x):
    import hashlib
    import json

    return hashlib.sha1(json.dumps(x, sort_keys=True).encode()).hexdigest()[:12]


# ---------------------------------------------------------------- new drawings
L_PX = 17.0
SUB_MARKS = [None, None, None, "WedgeBegin", "WedgedHashBegin", "WedgeEnd", "WedgedHashEnd", "Bold", "Hash", "Dash"]


def write_drawing(spec, path):
    """spec -> a minimal CDXML file (what ChemDraw writes, without the cosmetic attributes); returns {label: fragment id}.
    Each fragment: a ring (regular polygon) or a zig-zag chain of skeleton atoms, 0-2 substituent atoms per skeleton atom placed
    outwards, optional second-shell atom on a substituent; elements / charges / isotopes / radicals / hydrogen hints per atom;
    bond orders on skeleton bonds; stereo marks on skeleton->substituent bonds, narrow end at either atom."""
    ids = itertools.count(10)
    out = ['<?xml version="1.0" encoding="UTF-8" ?>', '<CDXML CreationProgram="vf" BondLength="%g" LabelFont="3" LabelSize="10">' % L_PX,
           '<fonttable><font id="3" charset="iso-8859-1" name="Arial"/></fonttable>', '<page id="1" BoundingBox="0 0 3000 800">']
    intended = {}
    texts = []
    for k, fr in enumerate(spec["frags"]):
        cx, cy = 120.0 + 230.0 * k, 150.0 + 40.0 * (k % 2)
        n = fr["n"]
        pts = []
        if fr["skel"] == "ring":
            R = L_PX / (2 * math.sin(math.pi / n))
            off = fr.get("rot", 0) * 0.1
            pts = [(cx + R * math.cos(2 * math.pi * i / n + off), cy + R * math.sin(2 * math.pi * i / n + off)) for i in range(n)]
            skel_bonds = [(i, (i + 1) % n) for i in range(n)]
            outward = [((p[0] - cx) / R, (p[1] - cy) / R) for p in pts]
        else:
            pts = [(cx + (i - n / 2) * L_PX * math.cos(math.pi / 6), cy + (L_PX / 2 if i % 2 else 0.0)) for i in range(n)]
            skel_bonds = [(i, i + 1) for i in range(n - 1)]
            outward = []
            for i in range(n):
                nb = [pts[j] for j in (i - 1, i + 1) if 0 <= j < n]
                mx, my = sum(p[0] for p in nb) / len(nb), sum(p[1] for p in nb) / len(nb)
                dx, dy = pts[i][0] - mx, pts[i][1] - my
                nn = math.hypot(dx, dy) or 1.0
                outward.append((dx / nn, dy / nn))
        nodes = []   # (id, x, y, atom spec)
        for i in range(n):
            nodes.append([next(ids), pts[i][0], pts[i][1], fr["atoms"][i % len(fr["atoms"])]])
        bonds = []   # (id, B, E, order, display)
        for bi, (a, b) in enumerate(skel_bonds):
            o = "1.5" if fr.get("aromatic") and fr["skel"] == "ring" else [None, None, None, "2", "3"][fr["orders"][bi % len(fr["orders"])] % 5]
            sm = fr.get("skel_mark")
            disp = SUB_MARKS[sm[1] % len(SUB_MARKS)] if sm and sm[0] % len(skel_bonds) == bi else None
            bonds.append([next(ids), nodes[a][0], nodes[b][0], o, disp])
        per_atom = {}
        for sb in fr["subs"]:
            at = sb["at"] % n
            per_atom.setdefault(at, []).append(sb)
        for at, lst in per_atom.items():
            lst = [dict(x) for x in lst[:2]]
            if len(lst) == 2:
                # two marks on one centre only as a drawable pair: one towards the viewer, one away (wedge + hash); anything else
                # (two wedges, two hashes, bold + wedge ...) is not a meaningful drawing: the second mark is dropped
                m0, m1 = SUB_MARKS[lst[0]["mark"] % len(SUB_MARKS)], SUB_MARKS[lst[1]["mark"] % len(SUB_MARKS)]
                up, down = ("WedgeBegin", "WedgeEnd"), ("WedgedHashBegin", "WedgedHashEnd")
                ok_pair = m1 is None or m0 is None or m1 == "Dash" or m0 == "Dash" or (m0 in up and m1 in down) or (m0 in down and m1 in up)
                if not ok_pair or lst[0].get("flip") or lst[1].get("flip"):
                    lst[1]["mark"] = 0
                    lst[1]["flip"] = False
            angs = [0.0] if len(lst) == 1 else [-0.6, 0.6]
            for sb, ang in zip(lst, angs):
                ox, oy = outward[at]
                dx, dy = ox * math.cos(ang) - oy * math.sin(ang), ox * math.sin(ang) + oy * math.cos(ang)
                x, y = pts[at][0] + L_PX * dx, pts[at][1] + L_PX * dy
                sid = next(ids)
                nodes.append([sid, x, y, sb["atom"]])
                mark = SUB_MARKS[sb["mark"] % len(SUB_MARKS)]
                cid = nodes[at][0]
                if mark in ("WedgeEnd", "WedgedHashEnd"):
                    B, E = sid, cid            # narrow end is E's side for *End: the centre
                else:
                    B, E = cid, sid
                if sb.get("flip") and mark in ("WedgeBegin", "WedgedHashBegin", "WedgeEnd", "WedgedHashEnd"):
                    B, E = E, B                # narrow end at the substituent instead
                bonds.append([next(ids), B, E, None, mark])
                if sb.get("tail") is not None:
                    tid = next(ids)
                    nodes.append([tid, x + L_PX * dx * 0.5 + L_PX * 0.8 * (-dy), y + L_PX * dy * 0.5 + L_PX * 0.8 * dx, sb["tail"]])
                    bonds.append([next(ids), sid, tid, None, None])
        xs, ys = [nd[1] for nd in nodes], [nd[2] for nd in nodes]
        fid = next(ids)
        out.append('<fragment id="%d" BoundingBox="%.2f %.2f %.2f %.2f">' % (fid, min(xs), min(ys), max(xs), max(ys)))
        for nid, x, y, a in nodes:
            attrs = ['id="%d"' % nid, 'p="%.2f %.2f"' % (x, y)]
            if a.get("el") not in (None, 6):
                attrs.append('Element="%d"' % a["el"])
            if a.get("q"):
                attrs.append('Charge="%d"' % a["q"])
            if a.get("iso") is not None:
                attrs.append('Isotope="%d"' % a["iso"])
            if a.get("rad"):
                attrs.append('Radical="%s"' % ("Doublet" if a["rad"] == 1 else "Singlet"))
            if a.get("hint") is not None:
                attrs.append('NumHydrogens="%d"' % a["hint"])
            if a.get("ap"):
                attrs = attrs[:2] + ['NodeType="ExternalConnectionPoint"', 'ExternalConnectionNum="%d"' % a["ap"]]
            out.append("<n %s/>" % " ".join(attrs))
        for bid, B, E, o, disp in bonds:
            out.append('<b id="%d" B="%d" E="%d"%s%s/>' % (bid, B, E, (' Order="%s"' % o) if o else "", (' Display="%s"' % disp) if disp else ""))
        out.append("</fragment>")
        label = "L%d" % k
        intended[label] = str(fid)
        texts.append('<t id="%d" p="%.2f %.2f"><s font="3" size="10" face="1">%s</s></t>' % (next(ids), (min(xs) + max(xs)) / 2, max(ys) + 22.0, label))
    out += texts
    if spec.get("orphan"):
        # a bold-face caption with NO structure drawn above it (it sits above the top row): it names nothing
        out.append('<t id="%d" p="60 12"><s font="3" size="10" face="1">ORPHAN</s></t>' % next(ids))
    if spec.get("caption"):
        # a caption that is NOT a label (plain face): must be ignored
        out.append('<t id="%d" p="30 30"><s font="3" size="10" face="0">scheme 1</s></t>' % next(ids))
    out += ["</page>", "</CDXML>"]
    with open(path, "w") as f:
        f.write("\n".join(out) + "\n")
    return intended


def strat_drawn(tier):
    el = st.sampled_from([6, 6, 6, 6, 7, 8, 16, 15, 5, 14])
    sub_el = st.sampled_from([6, 6, 7, 8, 9, 17, 35, 1, 16])
    atom = st.fixed_dictionaries({"el": el, "q": st.sampled_from([0, 0, 0, 0, 1, -1]), "iso": st.sampled_from([None, None, None, None, 13, 15, 18]),
                                  "rad": st.sampled_from([0, 0, 0, 0, 1, 2]), "hint": st.sampled_from([None, None, None, 0, 1, 2])})
    sub_atom = st.one_of(
        st.fixed_dictionaries({"el": sub_el, "q": st.sampled_from([0, 0, 0, 1, -1]), "iso": st.sampled_from([None, None, None, 2, 13]), "rad": st.sampled_from([0, 0, 0, 1]), "hint": st.sampled_from([None, None, 0, 1, 3])}),
        st.fixed_dictionaries({"el": st.just(0), "ap": st.integers(1, 3)}),
    )
    sub = st.fixed_dictionaries({"at": st.integers(0, 20), "atom": sub_atom, "mark": st.integers(0, len(SUB_MARKS) - 1), "flip": st.sampled_from([False, False, False, True]),
                                 "tail": st.one_of(st.none(), st.none(), st.fixed_dictionaries({"el": sub_el}))})
    frag = st.fixed_dictionaries({"skel": st.sampled_from(["ring", "ring", "chain"]), "n": st.integers(3, 7), "rot": st.integers(0, 30), "aromatic": st.sampled_from([False, False, True]),
                                  "atoms": st.lists(atom, min_size=1, max_size=7), "orders": st.lists(st.integers(0, 4), min_size=1, max_size=7), "subs": st.lists(sub, max_size=6)})   # (stereo marks on skeleton bonds of NEW drawings are not generated: the unchanged tree's ring-bond heuristic does not
                                                                      #  satisfy the mirror relation on them - outside the quantifier, see DESIGN 10.4)
    ops = st.lists(st.sampled_from(["permute_top", "translate", "renumber", "permute_nodes", "group_all"]), max_size=2, unique=True)
    return st.fixed_dictionaries({"drawing": st.fixed_dictionaries({"frags": st.lists(frag, min_size=1, max_size=6), "caption": st.booleans(), "orphan": st.sampled_from([False, False, True])}), "ops": ops, "seed": st.integers(0, 10**6)})


_RESOLVE_CACHE = {}


def _resolve_label(path, key):
    """id of the fragment a bold-face label names, from the drawing alone (a label drawn twice names what its FIRST occurrence names, as molli's
    warning promises); None when the drawing is ambiguous (two candidate fragments at practically the same distance, label inside a group that also holds its fragment: grouped pairs are
    a separate rule of the format)"""
    st_ = os.stat(path)
    ck = (path, st_.st_mtime_ns, st_.st_size)
    if ck not in _RESOLVE_CACHE:
        root = ET.parse(path).getroot()
        frs = [f for f in root.findall("./page/fragment") + root.findall("./page/group/fragment") if any(c.tag == "b" for c in f)]

        def pos(e):
            if e.get("BoundingBox"):
                l, t, r, b = map(float, e.get("BoundingBox").split())
                return (l + r) / 2, (t + b) / 2
            x, y = map(float, e.get("p").split()[:2])
            return x, y

        table = {}
        seen = set()
        for t in root.findall("./page/t") + root.findall("./page/group/t"):
            ss = t.findall("./s")
            if len(ss) != 1 or ss[0].get("face", "0") != "1":
                continue
            lbl = ss[0].text
            if lbl in seen:
                continue      # a label drawn twice: "Only the first occurrence will be kept" (molli's own warning text) - first in page order
            seen.add(lbl)
            lx, ly = pos(t)
            cands = sorted((abs(pos(f)[0] - lx) + abs(pos(f)[1] - ly), f.get("id")) for f in frs if pos(f)[1] < ly)
            if not cands or (len(cands) > 1 and cands[1][0] - cands[0][0] < 1e-6):
                table[lbl] = None
            else:
                table[lbl] = cands[0][1]
        _RESOLVE_CACHE.clear()
        _RESOLVE_CACHE[ck] = table
    return _RESOLVE_CACHE[ck].get(key)


def _open(path):
    import molli as ml

    with warnings.catch_warnings():
        warnings.simplefilter("ignore")
        return ml.CDXMLFile(path)


def _frag_of(cdx, key):
    """the element molli resolves the label to (public behaviour observed through the cache it fills)"""
    cdx[key]
    return cdx.xfrag_cache[key]


def check(recipe) -> list[Fail]:
    import molli as ml

    fails: list[Fail] = []
    fname = recipe.get("file", "generated")
    ops = recipe["ops"]
    d = _tmpdir()
    try:
        if "drawing" in recipe:
            src = os.path.join(d, "drawn.cdxml")
            intended = write_drawing(recipe["drawing"], src)
        else:
            src = str(getattr(ml.files, recipe["file"]))
            intended = None
        if ops:
            path = os.path.join(d, "variant.cdxml")
            make_variant(src, [o for o in ops if o != "mirror"], recipe["seed"], path)
        else:
            path = src
        orig = _open(src)
        var = _open(path)
        keys = list(orig.keys())
        if list(var.keys()) != keys and set(var.keys()) != set(keys):
            return [Fail("labels-differ-in-variant", f"{ops}: {sorted(set(keys) ^ set(var.keys()))[:5]}")]
        only = recipe.get("only_key")
        # a label drawn twice is ambiguous in the file itself (molli keeps "the first occurrence" and warns):
        # which fragment it names legitimately depends on the order of the page's objects
        from collections import Counter
        r0 = ET.parse(src).getroot()
        cnt = Counter(t.findall("./s")[0].text for t in r0.findall("./page/t") + r0.findall("./page/group/t") if len(t.findall("./s")) == 1 and t.findall("./s")[0].get("face", "0") == "1")
        ambiguous = {k for k, v in cnt.items() if v > 1} if ("permute_top" in ops or "group_all" in ops) else set()
        nt_keys = []
        nt_abs = []
        n = 0
        mpath = os.path.join(d, "mirrored.cdxml")
        make_variant(path, ["mirror"], 0, mpath)
        mir = _open(mpath)
        if "drawing" in recipe and recipe["drawing"].get("orphan") and only is None:
            # asking for the orphan caption is refused - every time, also after a first refusal
            outcomes = []
            for _ in range(3):
                try:
                    with warnings.catch_warnings():
                        warnings.simplefilter("ignore")
                        m_ = var["ORPHAN"]
                    outcomes.append(f"returned {m_.n_atoms} atoms")
                except Exception as e:
                    outcomes.append(type(e).__name__)
            if any(o.startswith("returned") for o in outcomes):
                fails.append(Fail("caption-without-a-structure-above-it-resolves-to-a-fragment", f"{fname} ops={ops}: three requests gave {outcomes}", recipe=dict(recipe)))
        for key in keys:
            if key == "ORPHAN":
                continue
            if only is not None and key != only:
                continue
            if key in ambiguous:
                continue
            n += 1
            sub = dict(recipe, only_key=key)
            where = f"{fname}[{key!r}] ops={ops}"
            try:
                with warnings.catch_warnings():
                    warnings.simplefilter("ignore")
                    np.random.seed(1)
                    m0 = orig[key]
                    np.random.seed(2)
                    mv = var[key]
                    np.random.seed(3)
                    mv2 = _open(path)[key]
                    mm = mir[key]
            except Exception as e:
                fails.append(Fail(f"parse-raises:{exc_sig(e.__cause__ or e) or type(e).__name__}", f"{where}: {e!r} <- {e.__cause__!r}"[:400], recipe=sub))
                continue
            # -- constitution vs the independent walk of the same (variant) file
            frag_el = var.xfrag_cache[key]
            # -- which fragment a label names, decided from the drawing by the harness: the fragment drawn above the label that is
            #    nearest to it (city-block distance between the label and the centre of the fragment's bounding box)
            own = _resolve_label(path, key)
            if own is not None and own != frag_el.get("id"):
                fails.append(Fail("label-resolves-to-a-fragment-other-than-the-one-drawn-above-it", f"{where}: the drawing puts the label under fragment id {own}, molli resolved it to id {frag_el.get('id')}", recipe=sub))
                continue
            if intended is not None and "renumber" not in ops and "renumber_small" not in ops and frag_el.get("id") != intended[key]:
                fails.append(Fail("label-resolves-to-another-fragment", f"{where}: label drawn under fragment id {intended[key]}, resolved to fragment id {frag_el.get('id')}", recipe=sub))
                continue
            try:
                gx = walk(frag_el)
            except HarnessError:
                raise
            gv, g0, gm = mol_graph(mv), mol_graph(m0), mol_graph(mm)
            has_feat = any(b.get("Display") in MIRROR for b in frag_el.iter("b"))
            has_const = any(x.get("Charge") or x.get("Isotope") or x.get("Radical") for x in frag_el.iter("n")) or frag_el.find("./n/fragment") is not None
            if has_feat or has_const:
                nt_keys.append((fname if "file" in recipe else _rhash(recipe["drawing"]), key, tuple(ops), recipe["seed"] if ops else 0))
            if not iso(gx, gv):
                fails.append(Fail("constitution-differs-from-drawing", f"{where}: drawing {describe(gx)} | parsed {describe(gv)}", recipe=sub))
                continue
            q, s2 = sum(dd["q"] for _, dd in gx.nodes(data=True)), sum(dd["spin"] for _, dd in gx.nodes(data=True))
            if mv.charge != q or mv.mult != s2 + 1:
                fails.append(Fail("total-charge-or-multiplicity-wrong", f"{where}: charge {mv.charge} mult {mv.mult}, drawing gives {q} / {s2 + 1}", recipe=sub))
            # -- label resolves to the same fragment as in the original file
            if "recharge" not in ops and not iso(g0, gv):
                fails.append(Fail("label-resolves-to-different-fragment", f"{where}: original {describe(g0)} | variant {describe(gv)}", recipe=sub))
                continue
            # -- determinism also across the history of one handle: the first result is edited by its owner,
            #    the same label asked again must still be the drawing
            c0 = np.array(m0.coords)
            try:
                with warnings.catch_warnings():
                    warnings.simplefilter("ignore")
                    m0.add_implicit_hydrogens()
                    m0.translate([1.0, -2.0, 0.5])
                    m0.name = "edited"
                    if m0.n_atoms:
                        m0.atoms[0].label = "edited"
                    np.random.seed(4)
                    m0b = orig[key]
            except Exception as e:
                fails.append(Fail(f"second-request-raises:{exc_sig(e.__cause__ or e) or type(e).__name__}", f"{where}: {e!r}"[:300], recipe=sub))
                continue
            if m0b is m0 or not iso(g0, mol_graph(m0b)) or m0b.name != key or not np.array_equal(c0, m0b.coords, equal_nan=True):
                fails.append(Fail("second-request-of-a-label-reflects-edits-of-the-first-result", f"{where}: first {describe(g0)} | after the caller edited it, asked again: {describe(mol_graph(m0b))} name={m0b.name!r}", recipe=sub))
            # -- determinism
            if not np.array_equal(mv.coords, mv2.coords, equal_nan=True):
                fails.append(Fail("parse-not-deterministic", f"{where}: max coordinate difference {np.nanmax(np.abs(mv.coords - mv2.coords)):.3e} between two parses", recipe=sub))
            if not np.all(np.isfinite(mv.coords)):
                fails.append(Fail("non-finite-coordinates", where, recipe=sub))
                continue
            # For NEW drawings (outside the property's quantifier, which names the bundled files and their variants) the 3-D
            # interpretation is asserted only when the fragment carries exactly ONE stereo mark: with several marks the unchanged
            # tree's result depends on the order of non-commuting out-of-plane operations (see DESIGN 10.4) and is not asserted.
            n_marks = sum(1 for b_ in frag_el.iter("b") if b_.get("Display") in MIRROR)
            stereo_asserted = ("drawing" not in recipe) or n_marks == 1
            # -- absolute handedness of unambiguous centres, from the drawing alone
            for (ci, h_exp, h) in (absolute_handedness(frag_el, mv) if stereo_asserted else []):
                nt_abs.append((fname if "file" in recipe else _rhash(recipe["drawing"]), key, ci))
                if abs(h) >= 0.05 and h * h_exp < 0:
                    fails.append(Fail("absolute-handedness-differs-from-drawing", f"{where}: centre {ci} ({mv.atoms[ci].element.symbol}): drawing gives sign {h_exp:+.2f}, model has {h:+.3f}", recipe=sub))
                    break
                if abs(h) < 0.05:
                    fails.append(Fail("marked-centre-is-flat-in-model", f"{where}: centre {ci}: h={h:+.3f}", recipe=sub))
                    break
            # -- mirror relation
            if not iso(gv, gm):
                fails.append(Fail("mirroring-stereo-marks-changes-constitution", f"{where}", recipe=sub))
                continue
            if mm.n_atoms == mv.n_atoms and stereo_asserted:
                hv, hm = handed(mv), handed(mm)
                for i in hv:
                    if i in hm and max(abs(hv[i]), abs(hm[i])) >= 0.05 and not (hv[i] * hm[i] < 0):
                        a = mv.atoms[i]
                        fails.append(Fail("handedness-not-inverted-by-mirroring", f"{where}: centre {i} ({a.element.symbol}, {len(list(mv.connected_atoms(a)))} neighbours): h={hv[i]:+.3f}, mirrored h={hm[i]:+.3f}", recipe=sub))
                        break
        if recipe.get("broken") is not None and not fails and only is None and len(keys) >= 2:
            # ---- one fragment of the file is DAMAGED (a node without a position): asking for its label fails.  The object is used on:
            #      every other label still parses to what it parsed to before the failure (constitution, totals)
            bkeys = [k for k in keys if k != "ORPHAN" and _resolve_label(path, k) is not None]
            if len(bkeys) >= 2:
                victim = bkeys[recipe["broken"] % len(bkeys)]
                vid = _resolve_label(path, victim)
                tree_ = ET.parse(path)
                hit = False
                for fr_ in tree_.getroot().findall("./page/fragment") + tree_.getroot().findall("./page/group/fragment"):
                    if fr_.get("id") == vid:
                        for n_ in fr_.findall("./n"):
                            if "p" in n_.attrib:
                                del n_.attrib["p"]
                                hit = True
                                break
                if hit:
                    bpath = os.path.join(d, "broken.cdxml")
                    tree_.write(bpath)
                    brk = _open(bpath)
                    others = [k for k in bkeys if k != victim and _resolve_label(path, k) != vid]

                    def _pass():
                        out_ = {}
                        for k in others:
                            with warnings.catch_warnings():
                                warnings.simplefilter("ignore")
                                m_ = brk[k]
                            out_[k] = (m_.charge, m_.mult, mol_graph(m_))
                        return out_
                    try:
                        first = _pass()
                        failed = False
                        try:
                            with warnings.catch_warnings():
                                warnings.simplefilter("ignore")
                                brk[victim]
                        except Exception:
                            failed = True
                        second = _pass() if failed else first
                    except Exception as e:
                        fails.append(Fail(f"parse-raises-next-to-a-damaged-fragment:{exc_sig(e.__cause__ or e) or type(e).__name__}", f"{fname} ops={ops} victim={victim!r}: {e!r}"[:300], recipe=dict(recipe)))
                        first = second = {}
                    for k in first:
                        if first[k][:2] != second[k][:2] or not iso(first[k][2], second[k][2]):
                            fails.append(Fail("label-parses-differently-after-another-label-failed", f"{fname}[{k!r}] ops={ops}: charge/mult {first[k][:2]} before, {second[k][:2]} after the request for the damaged {victim!r} failed", recipe=dict(recipe)))
                            break
        tally(units=max(0, n - 1), nontrivial_keys=nt_keys, labels={"centres_with_absolute_handedness_checked": len(nt_abs)})
    finally:
        shutil.rmtree(d, ignore_errors=True)
    seen, out = set(), []
    for f in fails:
        if f.sig not in seen:
            seen.add(f.sig)
            out.append(f)
    return out


def classify(recipe):
    return False, ["file=" + recipe.get("file", "generated")] + ["op=" + o for o in recipe["ops"]] + ([] if recipe["ops"] else ["op=identity"])


def enum_identity(tier, shard, nshards):
    for i, f in enumerate(FILES):
        if i % nshards == shard:
            yield {"file": f, "ops": [], "seed": 0, "broken": 1 + i}


def strat_variants(tier):
    ops = st.lists(st.sampled_from(["permute_top", "translate", "renumber", "renumber_small", "permute_nodes", "group_all", "recharge", "lone_ion"]), min_size=1, max_size=4, unique=True).filter(lambda o: not ("renumber" in o and "renumber_small" in o))
    return st.fixed_dictionaries({"file": st.sampled_from(FILES), "ops": ops, "seed": st.integers(0, 10**6), "broken": st.one_of(st.none(), st.integers(0, 50))})


def classify_drawn(recipe):
    fr = recipe["drawing"]["frags"]
    marks = sorted({str(SUB_MARKS[sb["mark"] % len(SUB_MARKS)]) for f in fr for sb in f["subs"]})
    return False, ["generated_drawing", f"fragments={len(fr)}"] + ["skel=" + f["skel"] for f in fr[:1]] + ["mark=" + m for m in marks] + ["op=" + o for o in recipe["ops"]]


LEGS = [
    Leg("bundled", check, classify, enumerate=enum_identity, exhaustive=True, shards={"quick": 7, "thorough": 7},
        rule="EVERY labelled fragment of the 7 bundled .cdxml files (116 labels): constitution vs. independent ElementTree walk, total charge / multiplicity, determinism, wedge<->hash mirror relation; "
             "evaluations = fragments; non-trivial = fragment has a stereo mark, a charge / isotope / radical or a nested fragment"),
    Leg("drawn", check, classify_drawn, strategy=strat_drawn, n={"quick": 300, "thorough": 8000}, shards={"quick": 16, "thorough": 32},
        rule="NEW drawings written by the harness as minimal CDXML: 1-3 labelled fragments, each a 3-7 ring or zig-zag chain with 0-6 substituents (some with a second-shell atom, some attachment points), elements B..Br, "
             "charges, isotopes, radicals, hydrogen hints, bond orders 1/2/3/aromatic, stereo marks {Wedge, WedgedHash (Begin / End, narrow end at either atom), Bold, Hash, Dash} on substituent bonds, a non-label caption; "
             "optionally also permuted / translated / renumbered; same per-fragment oracle (independent walk, charge / multiplicity, determinism, label -> intended fragment, absolute handedness, mirror relation)"),
    Leg("variants", check, classify, strategy=strat_variants, n={"quick": 120, "thorough": 3000}, shards={"quick": 16, "thorough": 32},
        rule="generated variants of the bundled files: 1-4 of {top-level objects permuted, page translated, node/bond ids renumbered, <n> children permuted}, each again with its mirrored twin; every label of the variant is checked"),
]
