"""C04 — concurrent library sessions are serialised and survive failing sessions.

Legs
  owned   the harness owns the schedule: sessions (9 kinds incl. 6 failing ones, faults injected by
          attribute assignment) run one at a time on 2 in-process handles + 1-2 handles living in
          long-lived helper processes; all sequences of k<=2 (quick) / k<=3 (thorough) sessions,
          exhaustive.  After EVERY session a third process probes the lock file.
  real    8-16 real processes, long-lived handles, random delays, 28% failing sessions; oracle =
          interval overlap of lock-protected sections, reader-sees-complete-records, final
          contents, and an owned hand-over after each failing session.
"""
from __future__ import annotations

import itertools
import json
import os
import select
import shutil
import subprocess
import sys
import time

from hypothesis import strategies as st

from vf.core import Fail, Leg, HarnessError, tally
from vf import c04_common as cc

LEVEL = "fault_enumeration"
ASSUMPTIONS = [
    "sessions of one process never overlap (threads sharing a handle and nested sessions are outside the claim)",
    "records put before the exception in a failing session may or may not persist; if visible they must be complete",
    "faults are injected by replacing bound methods (_write, end_write, end_read) on the backend instance",
]

_counter = itertools.count()
PROBE_S = 4.0
HSPEC = {"A": {"ro": False, "buf": -1}, "B": {"ro": False, "buf": 10**6}, "H1": {"ro": False, "buf": 10**6}, "H2": {"ro": False, "buf": -1}}


def _dir(tag):
    d = os.path.join(os.environ["VF_SCRATCH"], "c04", f"{os.getpid()}-{tag}{next(_counter)}")
    os.makedirs(d, exist_ok=True)
    return d


class Helper:
    def __init__(self):
        self.p = subprocess.Popen(
            [sys.executable, "-m", "vf.c04_helper"], stdin=subprocess.PIPE, stdout=subprocess.PIPE,
            stderr=subprocess.DEVNULL, text=True, bufsize=1, env=dict(os.environ),
        )

    def call(self, cmd, timeout=60.0):
        try:
            self.p.stdin.write(json.dumps(cmd) + "\n")
            self.p.stdin.flush()
        except Exception as e:
            raise HarnessError(f"helper died: {e}")
        r, _, _ = select.select([self.p.stdout], [], [], timeout)
        if not r:
            self.kill()
            return None
        line = self.p.stdout.readline()
        if not line:
            raise HarnessError("helper closed its pipe")
        rep = json.loads(line)
        if "error" in rep:
            raise HarnessError("helper error: " + rep["error"])
        return rep

    def send(self, cmd):
        try:
            self.p.stdin.write(json.dumps(cmd) + "\n")
            self.p.stdin.flush()
        except Exception as e:
            raise HarnessError(f"helper died: {e}")

    def recv(self, timeout=60.0):
        r, _, _ = select.select([self.p.stdout], [], [], timeout)
        if not r:
            self.kill()
            return None
        line = self.p.stdout.readline()
        if not line:
            raise HarnessError("helper closed its pipe")
        rep = json.loads(line)
        if "error" in rep:
            raise HarnessError("helper error: " + rep["error"])
        return rep

    def kill(self):
        try:
            self.p.kill()
            self.p.wait(5)
        except Exception:
            pass

    @property
    def alive(self):
        return self.p.poll() is None


_H: dict[str, Helper] = {}


def helper(name) -> Helper:
    h = _H.get(name)
    if h is None or not h.alive:
        h = _H[name] = Helper()
    return h


def _shutdown():
    for h in _H.values():
        h.kill()


import atexit

atexit.register(_shutdown)


def _vals(i):
    return [bytes([1 + i % 200]) * (10 + i), bytes([101 + i % 100]) * 9000]


def check_owned(recipe) -> list[Fail]:
    from molli._aux.lock import rwlock

    fails: list[Fail] = []
    d = _dir("o")
    path = os.path.join(d, "lib.ukv")
    lockpath = str(rwlock(path))
    sessions = recipe["sessions"]
    used = sorted({s[0] for s in sessions} | {"A"})
    local = {}
    try:
        for hid in ("A", "B"):
            local[hid] = cc.make_handle(path, HSPEC[hid]["ro"], HSPEC[hid]["buf"])
        for hn in ("H1", "H2"):
            if hn in used:
                if helper(hn).call({"op": "new", "path": path, "handles": {hn: HSPEC[hn]}}) is None:
                    raise HarnessError("helper stalled while constructing a handle")
        must: dict[str, bytes] = {}
        may: dict[str, bytes] = {}

        def do(hid, kind, keys, vals):
            if hid in local:
                return cc.run_session(local[hid], kind, keys, vals)
            rep = helper(hid).call({"op": "session", "h": hid, "kind": kind, "keys": keys, "vals": [v.hex() for v in vals]}, timeout=60)
            if rep is None:
                raise HarnessError("helper stalled during a session although every acquisition carries a timeout")
            return rep

        def check_seen(seen, who, when):
            for k, v in must.items():
                if k not in seen:
                    fails.append(Fail("completed-record-lost", f"{when}: {who} does not list {k}"))
                    return
                if seen[k] != v.hex():
                    fails.append(Fail("completed-record-altered", f"{when}: {who} reads {k} with {len(seen[k])//2}B, expected {len(v)}B"))
                    return
            for k, hv in seen.items():
                if k in must:
                    continue
                if k not in may:
                    fails.append(Fail("unknown-record-visible", f"{when}: {who} lists {k}"))
                    return
                if hv != may[k].hex():
                    fails.append(Fail("incomplete-record-visible", f"{when}: {who} reads {k} of a failed session with {len(hv)//2}B, expected {len(may[k])}B"))
                    return

        prev = "start"
        for i, (hid, ki) in enumerate(sessions):
            kind = cc.KINDS[ki]
            keys = [f"s{i}a", f"s{i}b"]
            vals = _vals(i)
            res = do(hid, kind, keys, vals)
            when = f"session {i} ({kind} on {hid}) after {prev}"
            if not res["acquired"]:
                fails.append(Fail(f"lock-not-acquirable:after-{prev.split(' ')[0]}", when + f": could not enter within {cc.TIMEOUT}s although no session is running"))
                break
            failing = kind not in ("read_all", "write1", "write2", "read_write1", "write_emptykey", "killed_mid_append", "caught_flush_error")
            if not failing and res["exc"] is not None:
                fails.append(Fail("good-session-raises", when + f": {res['exc']}"))
                break
            if res["state"] != "idle":
                fails.append(Fail(f"state-not-idle:after-{kind}", when + f": backend state {res['state']!r}"))
            if not res["file_closed"]:
                fails.append(Fail(f"file-left-open:after-{kind}", when))
            pr = helper("probe").call({"op": "probe", "lockpath": lockpath, "timeout": PROBE_S}, timeout=40)
            if pr is None:
                raise HarnessError("probe helper stalled")
            if not pr["ok"]:
                fails.append(Fail(f"lock-not-released:after-{kind}", when + f": a fresh process cannot take the write lock within {PROBE_S} s although no session is running"))
                break
            if kind == "write_emptykey":
                for k_, hv_ in (res.get("put_map") or {}).items():
                    must[k_] = bytes.fromhex(hv_)
            elif kind == "killed_mid_append":
                pass      # no record: the torn bytes must never show up as one
            elif kind == "caught_flush_error":
                for k, v in zip(keys, vals):
                    if k in res["put_ok"]:
                        must[k] = v
                    else:
                        may[k] = v
            elif kind in ("write1", "write2", "read_write1"):
                for k, v in zip(keys, vals):
                    if k in res["put_ok"]:
                        must[k] = v
            elif kind not in ("read_all", "read_fail_body", "fail_end_read", "fail_begin_write", "fail_begin_read", "read_fail_interrupt"):
                for k, v in zip(keys, vals):
                    may[k] = v
            if res.get("seen") is not None:
                check_seen(res["seen"], hid, when)
            if fails:
                break
            prev = f"{kind} on-{hid}"
        if not fails:
            for hid in used + ["B"]:
                res = do(hid, "read_all", [], [])
                if not res["acquired"] or res["exc"]:
                    fails.append(Fail("final-read-fails", f"{hid}: {res}"))
                    break
                check_seen(res["seen"], hid, "final read")
                if fails:
                    break
    finally:
        for c in local.values():
            try:
                uf = getattr(c._backend, "_ukvfile", None)
                if uf is not None and not uf.closed:
                    uf.close()
                c._backend._lock._do_close() if getattr(c._backend._lock, "lockfile", None) else None
            except Exception:
                pass
        if fails and any("lock-not-released" in f.sig or "lock-not-acquirable" in f.sig for f in fails):
            for hn in ("H1", "H2"):
                if hn in _H:
                    _H[hn].kill()    # a helper may be the one holding the leaked lock
        shutil.rmtree(d, ignore_errors=True)
        try:
            os.unlink(lockpath)
        except OSError:
            pass
    return fails


def classify_owned(recipe):
    s = recipe["sessions"]
    labels = [f"k={len(s)}"]
    nt = False
    for (h1, k1), (h2, k2) in zip(s, s[1:]):
        f1 = cc.KINDS[k1] not in ("read_all", "write1", "write2", "read_write1", "write_emptykey", "killed_mid_append", "caught_flush_error")
        if f1 and h1 != h2:
            nt = True
            labels.append("failing_then_other_handle")
        proc = lambda h: "D" if h in ("A", "B") else h
        if f1 and proc(h1) != proc(h2):
            labels.append("failing_then_other_process")
        if cc.KINDS[k1] in ("write1", "write2", "read_write1") and h1 != h2 and cc.KINDS[k2] in ("write1", "write2", "read_write1", "fail_body", "fail_flush"):
            nt = True
            labels.append("stale_handle_writes_after_other_writer")
    for _, k in s:
        labels.append("kind=" + cc.KINDS[k])
    if len(s) == 1 and cc.KINDS[s[0][1]] not in ("read_all", "write1", "write2", "read_write1", "write_emptykey", "killed_mid_append", "caught_flush_error"):
        nt = True   # the probe process is "another process" following the failing session
    return nt, labels


def enum_owned(tier, shard, nshards):
    hs = ["A", "B", "H1"] if tier == "quick" else ["A", "B", "H1", "H2"]
    K = 2 if tier == "quick" else 3
    letters = [[h, k] for h in hs for k in range(len(cc.KINDS))]
    i = 0
    for n in range(1, K + 1):
        for seq in itertools.product(letters, repeat=n):
            if i % nshards == shard:
                yield {"sessions": [list(x) for x in seq]}
            i += 1


def strat_owned(tier):
    hs = ["A", "B", "H1", "H2"]
    return st.fixed_dictionaries({"sessions": st.lists(st.tuples(st.sampled_from(hs), st.integers(0, len(cc.KINDS) - 1)).map(list), min_size=4, max_size=6 if tier == "quick" else 10)})


# ---------------------------------------------------------------- constructor vs. completed sessions (harness-owned interleaving)
def check_ctor(recipe) -> list[Fail]:
    """Another process starts constructing its handle while the library does not exist yet and is held right before its first
    lock acquisition; meanwhile this process creates the library and completes 1-2 writing sessions; then the gate opens.
    Nothing written in the completed sessions may be lost, and every handle proceeds."""
    fails: list[Fail] = []
    d = _dir("c")
    path = os.path.join(d, "lib.ukv")
    at_file, gate_file = os.path.join(d, "at"), os.path.join(d, "gate")
    hn = "H1"
    local = None
    try:
        h = helper(hn)
        h.send({"op": "new_gated", "path": path, "handles": {hn: {"ro": bool(recipe["ro"]), "buf": [-1, 0, 64, 10**6][recipe["hbuf"]]}}, "at_file": at_file, "gate_file": gate_file})
        t0 = time.time()
        while not os.path.exists(at_file) and time.time() - t0 < 30:
            time.sleep(0.01)
        if not os.path.exists(at_file):
            raise HarnessError("gated helper never reached its first lock acquisition")
        local = cc.make_handle(path, False, [-1, 0, 64, 10**6][recipe["abuf"]])
        must = {}
        for i in range(recipe["nsess"]):
            keys, vals = [f"c{i}a", f"c{i}b"], _vals(i)
            res = cc.run_session(local, "write2" if recipe["two"] else "write1", keys, vals)
            if res["exc"] is not None or not res["acquired"]:
                fails.append(Fail("ctor:session-before-gate-fails", f"{res}"))
                return fails
            for k, v in zip(keys, vals):
                if k in res["put_ok"]:
                    must[k] = v
        open(gate_file, "w").close()
        rep = h.recv(timeout=60)
        if rep is None:
            fails.append(Fail("ctor:constructor-never-returns", "the gated constructor did not finish within 60 s after the gate opened"))
            return fails
        views = [("creator's handle", cc.run_session(local, "read_all", [], []))]
        if not recipe["ro"] or True:
            r2 = h.call({"op": "session", "h": hn, "kind": "read_all", "keys": [], "vals": []}, timeout=60)
            if r2 is None:
                raise HarnessError("helper stalled during the final read")
            views.append(("late-constructed handle", r2))
        for who, res in views:
            if not res["acquired"] or res["exc"]:
                fails.append(Fail("ctor:final-read-fails", f"{who}: {res}"))
                continue
            seen = res["seen"]
            lost = sorted(k for k in must if k not in seen)
            if lost:
                fails.append(Fail("ctor:completed-record-lost", f"{who}: records {lost} of sessions completed before the other process finished constructing its handle are gone (sees {sorted(seen)})"))
            elif any(seen[k] != must[k].hex() for k in must):
                fails.append(Fail("ctor:completed-record-altered", who))
    finally:
        if local is not None:
            try:
                uf = getattr(local._backend, "_ukvfile", None)
                if uf is not None and not uf.closed:
                    uf.close()
            except Exception:
                pass
        if fails and hn in _H:
            _H[hn].kill()
        shutil.rmtree(d, ignore_errors=True)
        try:
            from molli._aux.lock import rwlock
            os.unlink(str(rwlock(path)))
        except OSError:
            pass
    seen_, out = set(), []
    for f_ in fails:
        if f_.sig not in seen_:
            seen_.add(f_.sig)
            out.append(f_)
    return out


def check_held(recipe) -> list[Fail]:
    """While ANOTHER process is inside a session (harness-owned gate), this process asks for sessions with short, zero and
    integer-zero timeouts: a writer is excluded from everything, readers exclude writers - the refusal is a TimeoutError, never an
    entered session.  After the gate opens everything proceeds and nothing is lost."""
    fails: list[Fail] = []
    d = _dir("k")
    path = os.path.join(d, "lib.ukv")
    at_file, gate_file = os.path.join(d, "at"), os.path.join(d, "gate")
    hn = "H1"
    local = None
    try:
        local = cc.make_handle(path, False, [-1, 0, 64, 10**6][recipe["abuf"]])
        res = cc.run_session(local, "write1", ["base"], [b"B" * 20])
        if res["exc"]:
            raise HarnessError(f"setup session failed: {res}")
        h = helper(hn)
        drop = recipe.get("during") == "drop"
        if recipe.get("during") == "rel_chdir":
            # the holder names the library by a relative path, after it has used the same spelling for another library elsewhere
            if h.call({"op": "new_rel", "path": path, "other_dir": os.path.join(d, "elsewhere"), "handles": {hn: {"ro": False, "buf": -1}}}) is None:
                raise HarnessError("helper stalled while constructing a handle")
        elif h.call({"op": "new", "path": path, "handles": {hn: {"ro": False, "buf": -1}, "idle": {"ro": not drop, "buf": -1, "plain": True, "keep_atexit": drop}}}) is None:
            raise HarnessError("helper stalled while constructing a handle")
        held_mode = recipe["held"]
        if drop:
            # history of the holder-to-be: a request through its OTHER handle timed out earlier (this process was inside a session then)
            with local.writing(timeout=cc.TIMEOUT):
                rep = h.call({"op": "try_session", "h": "idle", "timeout": 0.05})
            if rep is None or rep.get("entered"):
                return [Fail("session-entered-while-another-process-holds-a-writing-session", "the helper's request with timeout 0.05 got in while this process was inside writing()")]
        other = None
        if recipe.get("during") == "other_exits":
            # a third, short-lived process of its own: it has constructed a handle of the library BEFORE the holder's session began and
            # ends normally (interpreter exit, atexit hooks and all) while the holder is inside - nobody's business but its own
            ready = os.path.join(d, "ready")
            code = ("import sys, os, time\n"
                    "from vf import run as _run\n_run.setup_env()\n"
                    "from molli.storage import Collection, UkvCollectionBackend\n"
                    f"c = Collection({path!r}, UkvCollectionBackend, readonly={recipe['abuf'] % 2 == 0}, bufsize=-1)\n"
                    f"open({ready!r}, 'w').close()\n"
                    "t0 = time.time()\n"
                    f"while not os.path.exists({at_file!r}) and time.time() - t0 < 30: time.sleep(0.01)\n")
            other = subprocess.Popen([sys.executable, "-c", code], env=dict(os.environ), stdout=subprocess.DEVNULL, stderr=subprocess.DEVNULL)
            t0 = time.time()
            while not os.path.exists(ready) and time.time() - t0 < 60 and other.poll() is None:
                time.sleep(0.01)
            if not os.path.exists(ready):
                raise HarnessError("the short-lived process never constructed its handle")
        h.send({"op": "session_hold", "h": hn, "mode": held_mode, "key": "heldkey", "val": (b"H" * 33).hex(), "at_file": at_file, "gate_file": gate_file,
                "during": recipe.get("during") if recipe.get("during") not in ("other_exits", "rel_chdir") else None, "idle": "idle"})
        # ("drop": inside its session the holder lets go of that other handle and collects garbage)
        t0 = time.time()
        while not os.path.exists(at_file) and time.time() - t0 < 30:
            time.sleep(0.01)
        if not os.path.exists(at_file):
            raise HarnessError("helper never entered its session")
        if other is not None:
            try:
                other.wait(60)
            except subprocess.TimeoutExpired:
                other.kill()
                raise HarnessError("the short-lived process did not end")
        entered = []
        for mode in ("w", "r"):
            if held_mode == "r" and mode == "r":
                continue     # readers share
            for tmo in recipe["timeouts"]:
                tv = [0, 0.0, 0.05, 0.3][tmo]
                try:
                    cm = local.writing(timeout=tv) if mode == "w" else local.reading(timeout=tv)
                    with cm:
                        entered.append((mode, tv))
                        if mode == "w":
                            local[f"intruder{len(entered)}"] = b"I"
                except TimeoutError:
                    pass
        if entered:
            fails.append(Fail(f"session-entered-while-another-process-holds-a-{'writing' if held_mode == 'w' else 'reading'}-session", f"(mode, timeout) entered: {entered}"))
        open(gate_file, "w").close()
        if h.recv(timeout=90) is None:
            fails.append(Fail("held:holder-never-finished", ""))
            return fails
        if not fails:
            res = cc.run_session(local, "write1", ["after"], [b"A" * 9])
            if res["exc"] or not res["acquired"]:
                fails.append(Fail("held:session-after-release-fails", f"{res}"))
            res = cc.run_session(local, "read_all", [], [])
            want = {"base": (b"B" * 20).hex(), "after": (b"A" * 9).hex()}
            if held_mode == "w":
                want["heldkey"] = (b"H" * 33).hex()
            if res.get("seen") != want:
                fails.append(Fail("held:final-contents-wrong", f"{sorted((res.get('seen') or {}).keys())} vs {sorted(want)}"))
    finally:
        if local is not None:
            try:
                uf = getattr(local._backend, "_ukvfile", None)
                if uf is not None and not uf.closed:
                    uf.close()
            except Exception:
                pass
        if not os.path.exists(gate_file):
            try:
                open(gate_file, "w").close()
            except OSError:
                pass
        if fails and hn in _H:
            _H[hn].kill()
        shutil.rmtree(d, ignore_errors=True)
        try:
            from molli._aux.lock import rwlock
            os.unlink(str(rwlock(path)))
        except OSError:
            pass
    return fails


def check_pickled(recipe) -> list[Fail]:
    """A library handle that has already been through sessions is pickled and unpickled (what joblib / multiprocessing do with it):
    the copy is a handle like any other - it sees every record, refuses duplicates, appends, and nothing is lost."""
    import pickle
    from molli.storage import Collection, UkvCollectionBackend
    import atexit

    fails: list[Fail] = []
    d = _dir("p")
    path = os.path.join(d, "lib.ukv")
    try:
        a = cc.make_handle(path, False, -1)
        must = {}
        for i in range(recipe["n_before"]):
            keys, vals = [f"p{i}a", f"p{i}b"], _vals(i)
            res = cc.run_session(a, "write2", keys, vals)
            if res["exc"]:
                raise HarnessError(f"setup session failed: {res}")
            must.update(dict(zip(keys, vals)))
        q = Collection(path, UkvCollectionBackend, readonly=False, bufsize=[-1, 0, 64, 10**6][recipe["buf"]])
        atexit.unregister(q._backend.flush)
        for _ in range(recipe["n_used"]):
            with (q.reading(timeout=cc.TIMEOUT) if recipe["used_as"] == "r" else q.writing(timeout=cc.TIMEOUT)):
                sorted(q.keys())
        try:
            p_ = pickle.loads(pickle.dumps(q))
            atexit.unregister(p_._backend.flush)
        except Exception as e:
            return [Fail(f"pickled:handle-not-picklable:{type(e).__name__}", repr(e)[:200])]
        if recipe["other_writes_between"]:
            res = cc.run_session(a, "write1", ["between"], [b"W" * 11])
            must["between"] = b"W" * 11
        try:
            with p_.reading(timeout=cc.TIMEOUT):
                seen = {k: p_[k] for k in p_.keys()}
            if seen != must:
                fails.append(Fail("pickled:unpickled-handle-does-not-see-the-records", f"sees {sorted(seen)}, library holds {sorted(must)} (handle had {recipe['n_used']} {recipe['used_as']}-session(s) before pickling)"))
            dup_refused = False
            with p_.writing(timeout=cc.TIMEOUT):
                try:
                    p_[next(iter(must))] = b"DUPLICATE"
                except Exception:
                    dup_refused = True
                p_["from_copy"] = b"C" * 7
            must["from_copy"] = b"C" * 7
            if not dup_refused:
                fails.append(Fail("pickled:unpickled-handle-accepts-a-duplicate-key", ""))
        except Exception as e:
            fails.append(Fail(f"pickled:session-on-unpickled-handle-raises:{type(e).__name__}", repr(e)[:200]))
        res = cc.run_session(a, "read_all", [], [])
        if res.get("seen") != {k: v.hex() for k, v in must.items()} and not fails:
            fails.append(Fail("pickled:records-lost-or-altered-afterwards", f"{sorted((res.get('seen') or {}))} vs {sorted(must)}"))
    finally:
        shutil.rmtree(d, ignore_errors=True)
        try:
            from molli._aux.lock import rwlock
            os.unlink(str(rwlock(path)))
        except OSError:
            pass
    return fails


def enum_pickled(tier, shard, nshards):
    i = 0
    for n_before in (1, 2):
        for buf in range(4):
            for n_used in (0, 1, 2):
                for used_as in ("r", "w"):
                    for between in (False, True):
                        if i % nshards == shard:
                            yield {"n_before": n_before, "buf": buf, "n_used": n_used, "used_as": used_as, "other_writes_between": between}
                        i += 1


def enum_held(tier, shard, nshards):
    i = 0
    for held in ("w", "r"):
        for abuf in range(4):
            for timeouts in ([0], [1], [2], [0, 1, 2], [3]):
                if tier == "quick" and timeouts == [3] and abuf:
                    continue
                for during in (None, "unpickle", "deepcopy", "other_exits", "drop", "rel_chdir"):
                    if during and timeouts != [0, 1, 2]:
                        continue
                    if i % nshards == shard:
                        yield {"held": held, "abuf": abuf, "timeouts": timeouts, "during": during}
                    i += 1


def enum_ctor(tier, shard, nshards):
    i = 0
    for ro in (0,):      # (a read-only handle on a library that does not exist is refused outright: FileNotFoundError)
        for hbuf in range(4):
            for abuf in range(4):
                for nsess in (1, 2):
                    for two in (0, 1):
                        if i % nshards == shard:
                            yield {"ro": ro, "hbuf": hbuf, "abuf": abuf, "nsess": nsess, "two": two}
                        i += 1


# ---------------------------------------------------------------- real schedules
def check_real(recipe) -> list[Fail]:
    import hashlib
    from vf.c04_proc import fval

    nproc, nsess, seed = recipe["nproc"], recipe["nsess"], recipe["seed"]
    fails: list[Fail] = []
    d = _dir("r")
    path = os.path.join(d, "lib.ukv")
    try:
        cc.make_handle(path, False, -1)  # create the file
        # the same library reached through different spellings of its path (plain, via "sub/..", via a symlinked directory)
        os.makedirs(os.path.join(d, "sub"), exist_ok=True)
        dlink = d.rstrip("/") + "-ln"
        if not os.path.islink(dlink):
            os.symlink(d, dlink)
        spell = [path, os.path.join(d, "sub", "..", "lib.ukv"), os.path.join(dlink, "lib.ukv")]
        procs = [
            subprocess.Popen([sys.executable, "-m", "vf.c04_proc", spell[i % 3] if recipe.get("aliases", True) else path, str(i), str(nproc), str(nsess), str(seed), d],
                             stdout=subprocess.DEVNULL, stderr=subprocess.PIPE,
                             # every process has its own scratch / data / backup / log directories (as jobs on a cluster do); MOLLI_HOME and
                             # with it the shared directory are common to all of them
                             env=dict(os.environ, **{f"MOLLI_{v}_DIR": os.path.join(d, f"priv{i}", v.lower()) for v in ("SCRATCH", "DATA", "BACKUP", "LOG")}))
            for i in range(nproc)
        ]
        deadline = time.time() + 240
        errs = []
        for p in procs:
            try:
                _, err = p.communicate(timeout=max(1, deadline - time.time()))
                if p.returncode != 0:
                    errs.append(err.decode()[-800:])
            except subprocess.TimeoutExpired:
                for q in procs:
                    q.kill()
                errs.append("timeout")
        ents = []
        stalls = []
        for i in range(nproc):
            lp = os.path.join(d, f"log{i}.jsonl")
            if os.path.exists(lp):
                for line in open(lp):
                    e = json.loads(line)
                    (stalls if "stall_after" in e else ents).append(e)
        for s_ in stalls:
            fails.append(Fail(f"lock-not-released:after-{s_['stall_after']}", f"process {s_['p']} failed a {s_['stall_after']} session (#{s_['i']}) and then stayed idle; no other process completed a session for 20 s"))
        if errs and not fails:
            raise HarnessError("schedule process failed: " + errs[0])
        timeouts = [e for e in ents if e["exc"] == "TimeoutError"]
        if timeouts and not fails:
            raise HarnessError("a session timed out waiting 45 s for the lock without a hand-over stall (inconclusive)")
        held = [e for e in ents if "t_in" in e and "t_out" in e]
        # 1. writers exclude everybody
        ws = [e for e in held if not e["kind"].startswith("read")]
        n_pairs = 0
        for w in ws:
            for o in held:
                if o["p"] == w["p"]:
                    continue
                n_pairs += 1
                if w["t_in"] < o["t_out"] and o["t_in"] < w["t_out"]:
                    fails.append(Fail(f"sessions-overlap:writer-with-{'reader' if o['kind'].startswith('read') else 'writer'}",
                                      f"process {w['p']} {w['kind']}#{w['i']} [{w['t_in']},{w['t_out']}] overlaps process {o['p']} {o['kind']}#{o['i']} [{o['t_in']},{o['t_out']}] (ns, CLOCK_MONOTONIC, taken inside the lock-protected body)"))
                    break
            if fails:
                break
        # 2. readers see only complete records, and every record of a write session completed before they asked
        completed = [e for e in ents if e["kind"] == "write" and e["exc"] is None]
        allput = {k for e in ents for k in e["put"]} | {f"p{e['p']}s{e['i']}k{j}" for e in ents for j in range(3)}
        dig = {}
        for e in ents:
            if e.get("seen") is None:
                continue
            for k, hv in e["seen"].items():
                if k not in allput:
                    fails.append(Fail("unknown-record-visible", f"reader p{e['p']}#{e['i']} lists {k!r}"))
                    break
                if k not in dig:
                    dig[k] = hashlib.sha1(fval(k)).hexdigest()[:12]
                if hv != dig[k]:
                    fails.append(Fail("incomplete-record-visible", f"reader p{e['p']}#{e['i']} read {k} with a wrong/partial value"))
                    break
            for w in completed:
                if w["t_rel"] < e["t_req"]:
                    miss = [k for k in w["put"] if k not in e["seen"]]
                    if miss:
                        fails.append(Fail("completed-record-lost", f"reader p{e['p']}#{e['i']} does not see {miss[0]} written by p{w['p']}#{w['i']} which completed before the reader asked for the lock"))
                        break
        # 3. final contents
        from molli.storage.ukvfile import UKVFile

        f = UKVFile(path, "r")
        try:
            final = {k.decode(): f.get(k) for k in f.keys()}
        finally:
            f.close()
        for w in completed:
            for k in w["put"]:
                if k not in final:
                    fails.append(Fail("completed-record-lost", f"final library lacks {k} of completed session p{w['p']}#{w['i']}"))
                    break
        for k, v in final.items():
            if k not in allput:
                fails.append(Fail("unknown-record-visible", f"final library lists {k!r}"))
                break
            if v != fval(k):
                fails.append(Fail("completed-record-altered", f"final library: {k} has {len(v)}B, expected {len(fval(k))}B"))
                break
        nfail = sum(1 for e in ents if e["exc"] not in (None, "TimeoutError"))
        tally(units=len(ents), nontrivial_keys=[(seed, e["p"], e["i"]) for e in ents if e["exc"] not in (None,)] , labels={"sessions": len(ents), "failing_sessions": nfail, "writer_pairs_compared": n_pairs,
                                      **{f"kind={k}": sum(1 for e in ents if e['kind'] == k) for k in {e['kind'] for e in ents}}})
    finally:
        shutil.rmtree(d, ignore_errors=True)
        try:
            os.unlink(d.rstrip("/") + "-ln")
        except OSError:
            pass
    seen = set()
    out = []
    for f_ in fails:
        if f_.sig not in seen:
            seen.add(f_.sig)
            out.append(f_)
    return out


def classify_real(recipe):
    return False, [f"nproc={recipe['nproc']}"]


def strat_real(tier):
    if tier == "quick":
        return st.fixed_dictionaries({"nproc": st.just(8), "nsess": st.just(10), "seed": st.integers(0, 10**6)})
    return st.fixed_dictionaries({"nproc": st.sampled_from([8, 12, 16]), "nsess": st.sampled_from([20, 40]), "seed": st.integers(0, 10**6)})


LEGS = [
    Leg(
        "owned", check_owned, classify_owned, enumerate=enum_owned, exhaustive=True,
        shards={"quick": 16, "thorough": 32},
        rule="ALL sequences of k<=2 (quick: 3 handles) / k<=3 (thorough: 4 handles) sessions over 19 kinds (a caught mid-session flush error on a small-buffer handle, read, write1, write2, read-an-existing-record-then-write, a record under the empty key, ANOTHER process killed in mid-append between two sessions (torn tail), fail in body by Exception / KeyboardInterrupt / SystemExit / encoder / flush-time backend write / stream write inside UKVFile.put / end_write / reader body / end_read / begin_write / begin_read); lock probed from a fresh process after every session; non-trivial = failing session followed by a session on another handle (or by the probe process), or a stale handle writing after another writer",
    ),
    Leg(
        "owned_rand", check_owned, classify_owned, strategy=strat_owned,
        n={"quick": 60, "thorough": 3000}, shards={"quick": 12, "thorough": 32},
        rule="random sequences of 4-6 (quick) / 4-10 (thorough) sessions over 4 handles in 3 processes, same oracle",
    ),
    Leg(
        "ctor", check_ctor, lambda r: (True, [f"sessions_before_gate={r['nsess']}"]), enumerate=enum_ctor, exhaustive=True, shards={"quick": 8, "thorough": 8},
        rule="harness-owned interleaving of a handle CONSTRUCTOR with completed sessions: a helper process starts constructing its handle on a library that does not exist yet and is held right before its first lock acquisition; "
             "this process creates the library and completes 1-2 writing sessions; the gate opens; every record must survive and both handles must read. All 4x4 buffer sizes x 1-2 sessions x 1-2 puts combinations",
    ),
    Leg(
        "pickled", check_pickled, lambda r: (r["n_used"] > 0, [f"sessions_before_pickling={r['n_used']}{r['used_as']}", f"other_handle_writes_between={r['other_writes_between']}"]), enumerate=enum_pickled, exhaustive=True, shards={"quick": 8, "thorough": 8},
        rule="a Collection handle that went through 0-2 reading / writing sessions is pickled and unpickled; the copy must see every record (also one written by another handle in between), refuse a duplicate, append; all 96 combinations",
    ),
    Leg(
        "held", check_held, lambda r: (True, [f"holder={'writer' if r['held'] == 'w' else 'reader'}", "timeouts=" + ",".join(str([0, 0.0, 0.05, 0.3][t]) for t in r["timeouts"]), f"holder_copies_an_idle_handle_inside_its_session={r.get('during')}"]), enumerate=enum_held, exhaustive=True, shards={"quick": 8, "thorough": 8},
        rule="harness-owned overlap: a helper process sits inside a writing (or reading) session while this process asks for sessions with timeout 0, 0.0, 0.05, 0.3: every request that the holder excludes must end in TimeoutError, never inside the session - also when the holder, inside its session, unpickles / deep-copies an idle handle of the same library (no session on the copy), when a third process that had constructed a handle earlier exits normally meanwhile, when the holder lets go of another handle whose last request had timed out, or when the holder names the library by a relative path after a chdir; "
             "after the gate opens a session proceeds and the contents are complete",
    ),
    Leg(
        "real", check_real, classify_real, strategy=strat_real,
        n={"quick": 2, "thorough": 12}, shards={"quick": 2, "thorough": 3},
        rule="real schedules: 8 processes x 10 sessions (quick) / 8-16 x 20-40 (thorough), per-process PRNG from the drawn seed; evaluations = sessions executed; non-trivial = failing sessions; oracle: writer intervals (timestamps taken inside the protected body) overlap nothing, readers see only complete records incl. all of sessions completed before they asked, final contents, hand-over after each failing session",
    ),
]
