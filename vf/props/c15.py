"""C15 — graph queries agree with graph theory.

Legs
  small    ALL labelled simple graphs on n<=5 (quick) / n<=6 (thorough) atoms: every start atom, every
           (start, neighbour) direction, every bond
  random   generated graphs up to 40 atoms (trees, rings, fused rings, several components), random elements / bond types
  match    patterns cut out of generated graphs (connected induced subgraphs of 2-6 atoms): mode (i) wildcard
           bond types -> the SET of embeddings must equal a brute-force search; mode (ii) the source's own bond
           types -> every returned mapping valid and the identity embedding present; plus patterns that do not occur
References: own BFS, own bridge finder (iterative DFS low-link; networkx as second opinion), own backtracking embedder.
"""
from __future__ import annotations

import itertools
from collections import deque

import numpy as np
from hypothesis import strategies as st

from vf.core import Fail, Leg, HarnessError, tally, exc_sig

LEVEL = "exploration"
ASSUMPTIONS = [
    "no parallel bonds, no self loops",
    "bond-type matching rules of _edge_match beyond the property's statement are not asserted: mode (ii) only uses pattern types it implements (Unknown, Single, Double, Triple, Aromatic, Amide) with the source's own types, for which every rule is satisfied",
    "pattern atoms carry isotope None and stereo Unknown (wildcards of _node_match)",
]
ELS = [6, 7, 8, 16, 1, 9]
BTS = [1, 2, 3, 20, 21, 0, 1, 2, 20, 4, 5, 6, 10, 11, 98, 100, 101]   # every member except FractionalOrder; common ones weighted
ATS = [1, 1, 2, 31, 32, 33, 0, 10, 20, 100, 202]
PATTERN_BTS = (0, 1, 2, 3, 20, 21)   # bond types the matcher defines as pattern types (others raise NotImplementedError / never match by design)


# ---------------------------------------------------------------- references
def ref_bfs(adj, s, removed=None):
    dist = {s: 0}
    q = deque([s])
    while q:
        u = q.popleft()
        for v in adj[u]:
            if v not in dist and v != removed:
                dist[v] = dist[u] + 1
                q.append(v)
    return dist


def ref_bridges(n, edges):
    """set of frozenset({u,v}) that are bridges (iterative DFS with low-link)"""
    adj = {i: [] for i in range(n)}
    for k, (u, v) in enumerate(edges):
        adj[u].append((v, k))
        adj[v].append((u, k))
    disc, low = {}, {}
    out = set()
    t = 0
    for root in range(n):
        if root in disc:
            continue
        stack = [(root, -1, iter(adj[root]))]
        disc[root] = low[root] = t
        t += 1
        while stack:
            u, pe, it = stack[-1]
            adv = False
            for v, k in it:
                if k == pe:
                    continue
                if v in disc:
                    low[u] = min(low[u], disc[v])
                else:
                    disc[v] = low[v] = t
                    t += 1
                    stack.append((v, k, iter(adj[v])))
                    adv = True
                    break
            if not adv:
                stack.pop()
                if stack:
                    p = stack[-1][0]
                    low[p] = min(low[p], low[u])
                    if low[u] > disc[p]:
                        out.add(frozenset((p, u)))
    return out


class _Named:
    """atoms[i] -> the i-th atom in the form the API is given it (AtomLike = Atom | int | str); iteration gives the Atom objects"""

    def __init__(self, atoms, how):
        self._a, self._how = list(atoms), how

    def __getitem__(self, i):
        if self._how == 3:
            # named by its Element - which means "the first atom of that element" (get_atom's documented rule): used for the atoms
            # that ARE the first of their element, the others are handed over as objects
            a = self._a[i]
            first = next(x for x in self._a if x.element == a.element)
            return a.element if first is a else a
        return self._a[i] if self._how == 0 else i if self._how == 1 else self._a[i].label

    def __iter__(self):
        return iter(self._a)

    def __len__(self):
        return len(self._a)


FORDERS = [0.5, 1.7324, 4.0 / 3.0]     # fractional orders of the FractionalOrder (99) bonds, by bond number


def _bt(bts, k, plain):
    """keyword arguments of the k-th bond: its type as a BondType member or - what objects read back from a library carry - as the
    plain integer of that member; FractionalOrder bonds state their order themselves"""
    from molli.chem import BondType

    v = bts[k] if bts else 1
    kw = {"btype": int(v) if plain else BondType(v)}
    if v == 99:
        kw["f_order"] = FORDERS[k % 3]
    return kw


def build(n, edges, els=None, bts=None, cls="Connectivity", ats=None, plain_bt=False):
    import molli as ml
    from molli.chem import Atom, BondType, AtomType

    atoms = [Atom(element=(els[i] if els else 6), label=f"a{i}", atype=AtomType(ats[i] if ats else 1)) for i in range(n)]
    if cls == "Connectivity":
        g = ml.Connectivity(atoms)
    elif cls == "Substructure":
        # a view over part of a bigger molecule: its atoms' parent is the molecule, their parent indices are shifted
        extra = [Atom(element=9, label="x0"), Atom(element=17, label="x1")]
        mol = ml.Molecule(extra + atoms, coords=np.zeros((n + 2, 3)))
        for k, (u, v) in enumerate(edges):
            mol.connect(u + 2, v + 2, **_bt(bts, k, plain_bt))
        mol.connect(0, 1)
        if n:
            mol.connect(0, 2)
        g = mol.substructure(list(range(2, n + 2)))
        g._vf_keep_parent = mol
        return g
    elif cls == "Molecule":
        g = ml.Molecule(atoms, coords=np.zeros((n, 3)))
    else:
        g = ml.ConformerEnsemble(atoms if atoms else None, n_conformers=2, n_atoms=n)
    for k, (u, v) in enumerate(edges):
        g.connect(u, v, **_bt(bts, k, plain_bt))
    return g


def check_graph(n, edges, els, bts, cls, fails, where, how=0, plain_bt=False):
    """all traversal / ring / adjacency queries of one graph; atoms are named to the API as objects (how=0), integer indices (1) or labels (2)"""
    g = build(n, edges, els, bts, cls, plain_bt=plain_bt)
    atoms = _Named(g.atoms, how)
    where = where + ["", " [atoms named by index]", " [atoms named by label]", " [atoms named by Element where that is unambiguous]"][how]
    ix = {id(a): i for i, a in enumerate(atoms)}
    adj = {i: [] for i in range(n)}
    for (u, v) in edges:
        adj[u].append(v)
        adj[v].append(u)
    order = {1: 1.0, 2: 2.0, 3: 3.0, 0: 0.0, 20: 1.5, 21: 1.0, 4: 4.0, 5: 5.0, 6: 6.0, 10: 0.0, 11: 0.0, 98: 0.0, 100: 1.0, 101: 0.0}
    n_checks = 0
    for s in range(n):
        # --- adjacency queries
        got_n = sorted(ix[id(a)] for a in g.connected_atoms(atoms[s]))
        if got_n != sorted(adj[s]):
            fails.append(Fail("connected_atoms-wrong", f"{where} atom {s}: {got_n} vs {sorted(adj[s])}"))
        bw = list(g.bonds_with_atom(atoms[s]))
        exp_b = sorted(tuple(sorted(e)) for e in edges if s in e)
        if sorted(tuple(sorted((ix[id(b.a1)], ix[id(b.a2)]))) for b in bw) != exp_b:
            fails.append(Fail("bonds_with_atom-wrong", f"{where} atom {s}"))
        if g.n_bonds_with_atom(atoms[s]) != len(adj[s]):
            fails.append(Fail("n_bonds_with_atom-wrong", f"{where} atom {s}: {g.n_bonds_with_atom(atoms[s])} vs {len(adj[s])}"))
        ev = sum((FORDERS[k % 3] if (bts and bts[k] == 99) else order[(bts[k] if bts else 1)]) for k, e in enumerate(edges) if s in e)
        if abs(g.bonded_valence(atoms[s]) - ev) > 1e-9:
            fails.append(Fail("bonded_valence-wrong", f"{where} atom {s}: {g.bonded_valence(atoms[s])} vs {ev}"))
        # --- breadth-first traversal without direction
        ref = ref_bfs(adj, s)
        seq = [(ix[id(a)], d) for a, d in g.yield_bfsd(atoms[s])]
        n_checks += 1
        _check_seq(seq, {k: v for k, v in ref.items() if k != s}, f"{where} yield_bfsd({s})", fails, "bfsd")
        seq2 = [ix[id(a)] for a in g.yield_bfs(atoms[s])]
        if seq2 != [a for a, _ in seq]:
            fails.append(Fail("yield_bfs-order-differs-from-yield_bfsd", f"{where} start {s}: {seq2} vs {[a for a, _ in seq]}"))
        # --- with direction
        for d in adj[s]:
            refd = ref_bfs(adj, d, removed=s)
            exp = {k: v + 1 for k, v in refd.items()}
            seqd = [(ix[id(a)], dist) for a, dist in g.yield_bfsd(atoms[s], atoms[d])]
            n_checks += 1
            if not seqd or seqd[0] != (d, 1):
                fails.append(Fail("bfsd-direction-not-first", f"{where} yield_bfsd({s},{d}): {seqd[:3]}"))
            _check_seq(seqd, exp, f"{where} yield_bfsd({s},{d})", fails, "bfsd-directed")
            seqd2 = [ix[id(a)] for a in g.yield_bfs(atoms[s], atoms[d])]
            if seqd2 != [a for a, _ in seqd]:
                fails.append(Fail("yield_bfs-order-differs-from-yield_bfsd", f"{where} start {s} dir {d}"))
    # --- rings
    br = ref_bridges(n, edges)
    import networkx as nx

    G = nx.Graph()
    G.add_nodes_from(range(n))
    G.add_edges_from(edges)
    if {frozenset(e) for e in nx.bridges(G)} != br:
        raise HarnessError(f"reference bridge finders disagree on {edges}")
    for b in g.bonds:
        e = frozenset((ix[id(b.a1)], ix[id(b.a2)]))
        n_checks += 1
        got = bool(g.is_bond_in_ring(b))
        if plain_bt is False and how == 1:
            # asked with a Bond object of the caller's own that EQUALS the stored one (same two atoms, other way round)
            from molli.chem import Bond as _Bond
            try:
                got_eq = bool(g.is_bond_in_ring(_Bond(b.a2, b.a1)))
            except Exception:
                got_eq = got      # (refusing a bond object that is not the stored one is fine)
            if got_eq != got:
                fails.append(Fail("is_bond_in_ring-differs-for-an-equal-bond-object", f"{where} bond {sorted(e)}: stored object {got}, equal object {got_eq}"))
        if got != (e not in br):
            fails.append(Fail("is_bond_in_ring-wrong:" + ("bridge-reported-in-ring" if got else "ring-bond-reported-as-bridge"), f"{where} bond {sorted(e)} of edges {edges}"))
    return n_checks, len(br), G


def _check_seq(seq, exp, where, fails, tag):
    got_atoms = [a for a, _ in seq]
    if len(got_atoms) != len(set(got_atoms)):
        fails.append(Fail(f"{tag}:atom-yielded-twice", f"{where}: {seq}"))
        return
    if set(got_atoms) != set(exp):
        kind = "missing" if set(exp) - set(got_atoms) else "extra"
        fails.append(Fail(f"{tag}:reachable-set-wrong:{kind}", f"{where}: yielded {sorted(got_atoms)}, reachable {sorted(exp)}"))
        return
    ds = [d for _, d in seq]
    if any(x > y for x, y in zip(ds, ds[1:])):
        fails.append(Fail(f"{tag}:distances-not-monotone", f"{where}: {seq}"))
    for a, d in seq:
        if d != exp[a]:
            fails.append(Fail(f"{tag}:distance-wrong", f"{where}: atom {a} distance {d}, shortest path {exp[a]}"))
            return


def _dedup(fails):
    seen, out = set(), []
    for f in fails:
        if f.sig not in seen:
            seen.add(f.sig)
            out.append(f)
    return out


# ---------------------------------------------------------------- leg small (exhaustive)
def check_small(r) -> list[Fail]:
    n = r["n"]
    pairs = [(i, j) for i in range(n) for j in range(i + 1, n)]
    fails: list[Fail] = []
    keys = []
    masks = [r["mask"]] if "mask" in r else range(r["lo"], r["hi"])
    cnt = 0
    for mask in masks:
        edges = [p for k, p in enumerate(pairs) if mask >> k & 1]
        sub: list[Fail] = []
        # class and atom-naming form rotate with the graph number (reproducible from the mask)
        _, nbr, G = check_graph(n, edges, None, None, ["Connectivity", "Connectivity", "Substructure", "Molecule"][mask % 4], sub, f"n={n} edges={edges}", how=(mask // 4) % 3)
        cnt += 1
        import networkx as nx

        ncomp = nx.number_connected_components(G) if n else 0
        has_cycle = len(edges) > n - ncomp
        if (has_cycle and nbr >= 1) or ncomp >= 2:
            keys.append((n, mask))
        for f in sub:
            f.recipe = {"n": n, "mask": mask}
            fails.append(f)
    tally(units=max(0, cnt - 1), nontrivial_keys=keys)
    return _dedup(fails)


def enum_small(tier, shard, nshards):
    N = 5 if tier == "quick" else 6
    chunks = []
    for n in range(1, N + 1):
        tot = 2 ** (n * (n - 1) // 2)
        step = max(1, tot // 64)
        for lo in range(0, tot, step):
            chunks.append({"n": n, "lo": lo, "hi": min(tot, lo + step)})
    for i, c in enumerate(chunks):
        if i % nshards == shard:
            yield c


# ---------------------------------------------------------------- leg random
def gen_graph(r):
    """r: {n, parents, extra, comps, els, bts} -> (n, edges, els, bts)"""
    n = r["n"]
    edges = set()
    comp_start = sorted({c % n for c in r["comps"]} | {0}) if n else []
    for i in range(1, n):
        if i in comp_start:
            continue
        lo = max(c for c in comp_start if c <= i)
        p = lo + r["parents"][i % len(r["parents"])] % (i - lo) if i - lo > 0 else lo
        edges.add((min(i, p), max(i, p)))
    for (a, b) in r["extra"]:
        if n >= 2:
            a, b = a % n, b % n
            if a != b:
                # ring closures stay inside a component
                ca = max(c for c in comp_start if c <= a)
                cb = max(c for c in comp_start if c <= b)
                if ca == cb:
                    edges.add((min(a, b), max(a, b)))
    edges = sorted(edges)
    els = [ELS[r["els"][i % len(r["els"])] % len(ELS)] for i in range(n)]
    bts = [BTS[r["bts"][k % len(r["bts"])] % len(BTS)] for k in range(len(edges))]
    return n, edges, els, bts


def check_random(r) -> list[Fail]:
    n, edges, els, bts = gen_graph(r)
    fails: list[Fail] = []
    if r.get("frac"):
        # some bonds are of FractionalOrder type (own f_order)
        bts = [99 if (k + r["frac"]) % 3 == 0 else b for k, b in enumerate(bts)]
    check_graph(n, edges, els, bts, r["cls"], fails, f"random n={n}" + (" [bond types as plain integers]" if r.get("plain_bt") else ""), how=r.get("how", 0), plain_bt=bool(r.get("plain_bt")))
    return _dedup(fails)


def classify_random(r):
    import networkx as nx

    n, edges, _, _ = gen_graph(r)
    G = nx.Graph()
    G.add_nodes_from(range(n))
    G.add_edges_from(edges)
    ncomp = nx.number_connected_components(G) if n else 0
    has_cycle = len(edges) > n - ncomp
    nbr = len(list(nx.bridges(G)))
    lab = ["cls=" + r["cls"], f"components={'1' if ncomp <= 1 else '2+'}"] + (["has_cycle"] if has_cycle else []) + (["has_bridge"] if nbr else [])
    return (has_cycle and nbr >= 1) or ncomp >= 2, lab


def _graph_recipe(max_n):
    i = st.integers(0, 1000)
    return st.fixed_dictionaries({
        "n": st.one_of(st.integers(1, 12), st.integers(1, max_n)),
        "parents": st.lists(i, min_size=8, max_size=40),
        "extra": st.lists(st.tuples(i, i).map(list), max_size=8),
        "comps": st.lists(i, max_size=3),
        "els": st.lists(i, min_size=4, max_size=40), "bts": st.lists(i, min_size=4, max_size=50),
        "cls": st.sampled_from(["Connectivity", "Molecule", "ConformerEnsemble", "Substructure"]),
        "how": st.sampled_from([0, 0, 1, 2, 3, 3]),
    })


def strat_random(tier):
    return st.tuples(_graph_recipe(40), st.sampled_from([0, 0, 1, 2]), st.booleans()).map(lambda t: dict(t[0], frac=t[1], plain_bt=t[2]))


# ---------------------------------------------------------------- leg match
def embeddings(n, edges, els, pn, pedges, pels):
    """brute force: all injective maps pattern->source, element respecting (0 = wildcard), induced"""
    adj = [[False] * n for _ in range(n)]
    for u, v in edges:
        adj[u][v] = adj[v][u] = True
    padj = [[False] * pn for _ in range(pn)]
    for u, v in pedges:
        padj[u][v] = padj[v][u] = True
    out = []
    cur = []
    used = [False] * n

    def rec(k):
        if k == pn:
            out.append(tuple(cur))
            return
        for s in range(n):
            if used[s]:
                continue
            if pels[k] != 0 and pels[k] != els[s]:
                continue
            if any(padj[k][j] != adj[s][cur[j]] for j in range(k)):
                continue
            used[s] = True
            cur.append(s)
            rec(k + 1)
            cur.pop()
            used[s] = False

    rec(0)
    return set(out)


def check_match(r) -> list[Fail]:
    import molli as ml
    from molli.chem import Atom, BondType

    n, edges, els, bts = gen_graph(r["graph"])
    if n < 1:
        return []
    mode = r["mode"]
    adj = {i: set() for i in range(n)}
    for u, v in edges:
        adj[u].add(v)
        adj[v].add(u)
    # connected induced subgraph grown from a seed atom
    seedi = r["seed"] % n
    chosen = [seedi]
    frontier = sorted(adj[seedi])
    want = 1 + r["size"] % 6        # single-atom patterns included
    k = 0
    while len(chosen) < want and frontier:
        nx_ = frontier[r["grow"][k % len(r["grow"])] % len(frontier)]
        k += 1
        chosen.append(nx_)
        frontier = sorted({w for c in chosen for w in adj[c]} - set(chosen))
    if r.get("two_piece") and 4 <= n <= 14:      # (small sources only: the brute-force reference has nothing to prune on between the pieces)
        # a DISCONNECTED pattern (ion pair, solute + solvent, fragment + a lone atom): a second piece grown from another seed, the pattern
        # is the induced subgraph on both (embeddings may put the pieces into different fragments of the source - or the same one)
        chosen = chosen[:3]
        rest_ = [i for i in range(n) if i not in chosen and not (adj[i] & set(chosen))]
        if rest_:
            s2 = rest_[r["two_piece"] % len(rest_)]
            piece2 = [s2]
            fr2 = sorted(adj[s2] - set(chosen))
            if fr2 and r["two_piece"] % 2:
                piece2.append(fr2[r["two_piece"] % len(fr2)])
            chosen = chosen + [x for x in piece2 if x not in chosen]
    perm = list(range(len(chosen)))
    if r["shuffle"]:
        perm = [perm[i] for i in np.random.default_rng(r["seed"]).permutation(len(perm))]
    chosen = [chosen[i] for i in perm]
    pos = {s: i for i, s in enumerate(chosen)}
    pedges = [(pos[u], pos[v]) for (u, v) in edges if u in pos and v in pos]
    pbts = [bts[k_] for k_, (u, v) in enumerate(edges) if u in pos and v in pos]
    pels = [els[s] for s in chosen]
    if mode == "wildcard":
        pels = [0 if (r["wild"] >> i) & 1 else e for i, e in enumerate(pels)]
        pb = [0] * len(pedges)
    elif mode == "own_types":
        pb = [b if b in PATTERN_BTS else 0 for b in pbts]
    elif mode == "absent":
        # a pattern that cannot occur: an element the source does not contain
        pels = [35] + pels[1:]
        pb = [0] * len(pedges)
    else:
        raise HarnessError("bad mode")
    # atom types are perceived annotations (mol2 C.ar / C.3 ...), not part of the matching contract: source and pattern carry unrelated ones
    sats = [ATS[(r["seed"] * 7 + 3 * i) % len(ATS)] for i in range(n)] if r.get("typed") else None
    pats = [ATS[(r["seed"] * 5 + i) % len(ATS)] for i in range(len(chosen))] if r.get("typed") == 2 else None
    src = build(n, edges, els, bts, r["graph"]["cls"], ats=sats)
    pat = build(len(chosen), pedges, pels, pb, "Connectivity", ats=pats)
    where = f"match[{mode}] source n={n}, pattern {len(chosen)} atoms {pels} edges {pedges}"
    fails: list[Fail] = []
    try:
        six = {id(a): i for i, a in enumerate(src.atoms)}
        got_idx = [tuple(l) for l in src.get_substr_indices(pat)]
        got_map = []
        for m in src.match(pat):
            got_map.append(tuple(six[id(m[pa])] for pa in pat.atoms))
    except Exception as e:
        s = exc_sig(e)
        if s is None:
            raise
        return [Fail(f"match-raises:{s}", f"{where}: {e!r}"[:300])]
    if sorted(got_idx) != sorted(got_map):
        fails.append(Fail("get_substr_indices-disagrees-with-match", where))
    # the mappings COLLECTED first and looked at afterwards (list(mol.match(p)), sorted(...)): each is a mapping of its own
    try:
        kept = list(src.match(pat))
        got_kept = [tuple(six.get(id(m.get(pa)), -1) for pa in pat.atoms) for m in kept]
    except Exception as e:
        s = exc_sig(e)
        if s is None:
            raise
        return [Fail(f"match-raises:collected:{s}", f"{where}: {e!r}"[:300])]
    if sorted(got_kept) != sorted(got_map):
        fails.append(Fail("match:collected-mappings-differ-from-the-ones-seen-while-iterating", f"{where}: {len(got_map)} mappings while iterating, collected list shows {sorted(set(got_kept))[:3]}"))
    if len(set(got_idx)) != len(got_idx):
        fails.append(Fail("match:duplicate-mappings", where))
    ref = embeddings(n, edges, els, len(chosen), pedges, pels)
    if mode in ("wildcard", "absent"):
        got = set(got_idx)
        if got - ref:
            bad = sorted(got - ref)[0]
            fails.append(Fail("match:invalid-embedding-returned", f"{where}: {bad} is not an injective, element-respecting, induced embedding"))
        if ref - got:
            fails.append(Fail("match:embedding-missed", f"{where}: {sorted(ref - got)[0]} (of {len(ref)}) not returned; {len(got)} returned"))
    else:
        got = set(got_idx)
        if got - ref:
            fails.append(Fail("match:invalid-embedding-returned", f"{where}: {sorted(got - ref)[0]}"))
        if tuple(chosen) not in got:
            fails.append(Fail("match:identity-embedding-missed", f"{where}: the atoms the pattern was cut from, {tuple(chosen)}, are not among {len(got)} mappings"))
    # ---- the documented keyword callbacks, ONE at a time: the matcher that is not overridden stays the default one
    if not fails:
        try:
            got_e = set(tuple(six[id(m[pa])] for pa in pat.atoms) for m in src.match(pat, edge_match=lambda e1, e2: True))
            got_n = set(tuple(six[id(m[pa])] for pa in pat.atoms) for m in src.match(pat, node_match=lambda n1, n2: True)) if mode == "wildcard" else None
        except Exception as e:
            s = exc_sig(e)
            if s is None:
                raise
            return [Fail(f"match-raises:one-callback:{s}", f"{where}: {e!r}"[:300])]
        # any bond matches any bond, elements still count: exactly the element-respecting induced embeddings, whatever the bond types
        if got_e != ref:
            bad = sorted(got_e ^ ref)[0]
            fails.append(Fail("match:edge_match-override-changes-the-element-rule", f"{where}: match(pattern, edge_match=any) returned {len(got_e)} mappings, {len(ref)} element-respecting embeddings exist; e.g. {bad}"))
        if got_n is not None:
            ref_any = embeddings(n, edges, els, len(chosen), pedges, [0] * len(chosen))
            if got_n != ref_any:
                fails.append(Fail("match:node_match-override-wrong", f"{where}: match(pattern, node_match=any) returned {len(got_n)} mappings, {len(ref_any)} embeddings of the bare graph exist"))
    tally(labels={f"mode={mode}": 1, "embeddings>=2": 1 if len(ref) >= 2 else 0})
    # ---- the same objects after an in-place edit: the answers must follow the CURRENT graph
    if not fails and r.get("edit") is not None and mode in ("wildcard", "absent"):
        from molli.chem import BondType

        ek, ea, eb = r["edit"]
        edges2, bts2, els2 = list(edges), list(bts), list(els)
        # every kind of query has been asked once BEFORE the edit (whatever they remember must not survive it)
        for a_ in src.atoms:
            list(src.connected_atoms(a_)); list(src.bonds_with_atom(a_)); src.bonded_valence(a_); src.n_bonds_with_atom(a_)
        if n:
            list(src.yield_bfsd(src.atoms[0])); list(src.yield_bfs(src.atoms[0]))
        for b_ in src.bonds:
            src.is_bond_in_ring(b_)
        what = None
        if ek == "del_bond" and edges2:
            k_ = ea % len(edges2)
            u, v = edges2[k_]
            src.del_bond(src.lookup_bond(u, v))
            del edges2[k_], bts2[k_]
            what = f"del_bond({u},{v})"
        elif ek == "connect" and n >= 2:
            u, v = ea % n, eb % n
            if u != v and (min(u, v), max(u, v)) not in edges2:
                src.connect(u, v, btype=BondType.Single)
                edges2.append((min(u, v), max(u, v)))
                bts2.append(1)
                what = f"connect({u},{v})"
        elif ek == "move_bond" and edges2 and n >= 2:
            # one bond deleted and another made: the numbers of atoms and bonds are what they were
            u, v = ea % n, eb % n
            if u != v and (min(u, v), max(u, v)) not in edges2:
                k_ = (ea + eb) % len(edges2)
                u0, v0 = edges2[k_]
                src.del_bond(src.lookup_bond(u0, v0))
                del edges2[k_], bts2[k_]
                src.connect(u, v, btype=BondType.Single)
                edges2.append((min(u, v), max(u, v)))
                bts2.append(1)
                what = f"del_bond({u0},{v0}) + connect({u},{v})"
        elif ek == "element":
            u = ea % n
            new_el = ELS[eb % len(ELS)]
            src.atoms[u].element = new_el
            els2[u] = new_el
            what = f"atoms[{u}].element={new_el}"
        if what is not None:
            try:
                got2 = set(tuple(l) for l in src.get_substr_indices(pat))
            except Exception as e:
                s_ = exc_sig(e)
                if s_ is None:
                    raise
                return [Fail(f"match-raises-after-edit:{s_}", f"{where} after {what}: {e!r}"[:300])]
            ref2 = embeddings(n, edges2, els2, len(chosen), pedges, pels)
            if got2 != ref2:
                kind = "stale-embeddings-after-edit" if got2 == set(got_idx) and ref2 != set(got_idx) else "wrong-embeddings-after-edit"
                fails.append(Fail(f"match:{kind}", f"{where} after {what}: {len(got2)} returned, {len(ref2)} expected, {len(got2 ^ ref2)} differ"))
            # traversal / ring queries on the edited object as well
            sub: list[Fail] = []
            adj2 = {i: [] for i in range(n)}
            for (u, v) in edges2:
                adj2[u].append(v)
                adj2[v].append(u)
            ix = {id(a): i for i, a in enumerate(src.atoms)}
            s0 = r["seed"] % n
            refd = ref_bfs(adj2, s0)
            seq = [(ix[id(a)], d_) for a, d_ in src.yield_bfsd(src.atoms[s0])]
            _check_seq(seq, {k_: v_ for k_, v_ in refd.items() if k_ != s0}, f"{where} after {what}: yield_bfsd({s0})", sub, "bfsd-after-edit")
            br = ref_bridges(n, edges2)
            for b in src.bonds:
                e_ = frozenset((ix[id(b.a1)], ix[id(b.a2)]))
                if bool(src.is_bond_in_ring(b)) != (e_ not in br):
                    sub.append(Fail("is_bond_in_ring-wrong-after-edit", f"{where} after {what}: bond {sorted(e_)}"))
                    break
            for s_i in range(n):
                got_n = sorted(ix[id(a_)] for a_ in src.connected_atoms(src.atoms[s_i]))
                if got_n != sorted(adj2[s_i]) or src.n_bonds_with_atom(src.atoms[s_i]) != len(adj2[s_i]):
                    sub.append(Fail("connected_atoms-wrong-after-edit", f"{where} after {what}: atom {s_i}: {got_n} vs {sorted(adj2[s_i])}"))
                    break
            fails.extend(sub)
            tally(labels={"requery_after_edit": 1})
    return _dedup(fails)


def classify_match(r):
    return True, ["mode=" + r["mode"], "cls=" + r["graph"]["cls"], "pattern=" + ("two_pieces" if r.get("two_piece") else "connected"), "atom_types=" + ["default", "source_typed", "both_typed"][r.get("typed", 0)]]


def strat_match(tier):
    # (sources above 24 atoms made single reference searches run for an hour: bounded by size, never by time)
    i = st.integers(0, 1000)
    return st.fixed_dictionaries({
        "graph": _graph_recipe(24), "mode": st.sampled_from(["wildcard", "wildcard", "own_types", "absent"]),
        "seed": i, "size": i, "grow": st.lists(i, min_size=5, max_size=5), "wild": st.integers(0, 63), "shuffle": st.booleans(), "typed": st.sampled_from([0, 1, 2]), "two_piece": st.sampled_from([0, 0, 0, 1, 2, 3, 4]),
        "edit": st.one_of(st.none(), st.tuples(st.sampled_from(["del_bond", "connect", "element", "move_bond", "move_bond"]), i, i).map(list)),
    })


LEGS = [
    Leg("small", check_small, lambda r: (False, [f"n={r['n']}"]), enumerate=enum_small, exhaustive=True, shards={"quick": 16, "thorough": 64},
        rule="ALL labelled simple graphs on n<=5 (quick, 1 + 2 + 8 + 64 + 1024) / n<=6 (thorough, + 32768) atoms; per graph every start atom, every (start, neighbour) direction, every bond; "
             "evaluations = graphs; non-trivial = graph has a cycle and a bridge, or >=2 components"),
    Leg("random", check_random, classify_random, strategy=strat_random, n={"quick": 600, "thorough": 12000}, shards={"quick": 16, "thorough": 32},
        rule="generated graphs of 1-40 atoms (forest + ring closures inside components, 1-4 components), random elements and bond types, as Connectivity / Molecule / ConformerEnsemble; same non-trivial rule"),
    Leg("match", check_match, classify_match, strategy=strat_match, n={"quick": 800, "thorough": 16000}, shards={"quick": 16, "thorough": 32},
        rule="pattern = connected induced subgraph (2-6 atoms, optionally shuffled) of a generated graph: wildcard mode (bond types Unknown, some elements Unknown) compares the SET of mappings with a brute-force embedder; "
             "own-type mode requires validity + the identity embedding; absent mode (foreign element) requires the empty set; in two thirds of the cases the source is then edited in place (bond deleted / added, element changed) and queried again"),
]
