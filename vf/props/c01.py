"""C01 — library round trip: what is stored in a .mlib/.clib is what is read back.

Legs: mol_v2, ens_v2 (current encoding), mol_v1, ens_v1 (legacy, restricted to its schema).
Route per case: 1-3 objects put under generated keys inside writing() with a drawn bufsize, read
back (a) inside the same writing session, (b) through the same handle in a later reading
session, (c) through a brand-new handle.  Oracle: field-by-field snapshot equality after
rounding the EXPECTED arrays / python floats to float32.
"""
from __future__ import annotations

import itertools
import os

from hypothesis import strategies as st

from vf import chem
from vf.core import Fail, Leg, HarnessError

LEVEL = "exploration"
ASSUMPTIONS = [
    "enum-typed fields come back as plain ints: compared by value",
    "msgpack arrays do not distinguish list from tuple: sequences compared as sequences",
    "python floats inside attributes and f_order are compared at float32 precision (use_single_float=True is the anchored encoder setting); numpy arrays inside attributes must be exact",
    "attribute floats are generated with |x| < 1e30 (float32 range)",
]
BUFS = [-1, 0, 64, 10**6]
_counter = itertools.count()


def _path(ext):
    d = os.path.join(os.environ["VF_SCRATCH"], "c01", str(os.getpid()))
    os.makedirs(d, exist_ok=True)
    return os.path.join(d, f"l{next(_counter)}.{ext}")


ENCODINGS = [None, None, "utf8", "latin-1", "cp1252", "ascii"]


def _lib(kind, path, **kw):
    import molli as ml
    import atexit

    if kw.get("encoding", 0) is None:
        kw.pop("encoding")
    lib = (ml.MoleculeLibrary if kind == "mol" else ml.ConformerLibrary)(path, **kw)
    atexit.unregister(lib._backend.flush)
    return lib


_M32 = []


def _mol32():
    if not _M32:
        import molli as ml
        import numpy as np

        class Molecule32(ml.Molecule, coords_dtype=np.float32):
            pass

        _M32.append(Molecule32)
    return _M32[0]


def check(recipe) -> list[Fail]:
    from molli.storage.ukvfile import UKVFile

    kind, v = recipe["kind"], recipe["v"]
    if kind not in ("mol", "ens") or v not in (1, 2):
        raise HarnessError("bad recipe")
    fails: list[Fail] = []
    build = chem.build_molecule if kind == "mol" else chem.build_ensemble
    objs = [build(r) for r in recipe["objs"]]
    for o, r_ in zip(objs, recipe["objs"]):
        if isinstance(r_.get("name"), str):
            o.name = r_["name"]          # the name the caller gives (also the empty one), through the public setter
    wrapped = recipe.get("wrapped", 0)
    keep_alive = []
    if wrapped:
        # some atoms of each object have ALSO been handed, uncopied and in another order, to a container of somebody else
        # (ml.Promolecule(picked_atoms) adopts them): the object itself - atom list, bonds, arrays - is as before.  1: that container
        # is still alive while the object is stored, 2: it is gone again
        import gc
        import molli as ml
        for o in objs:
            if o.n_atoms >= 2:
                picked = [o.atoms[i] for i in range(o.n_atoms - 1, -1, -2)]
                keep_alive.append(ml.Promolecule(picked))
        if wrapped == 2:
            keep_alive.clear()
            gc.collect()
    if recipe.get("parallel"):
        # a second Bond object between an already bonded pair (reversed, other type / label): part of the bond SEQUENCE like any other
        from molli.chem import Bond, BondType
        for o in objs:
            if o.n_bonds:
                b0 = o.bonds[recipe["parallel"] % o.n_bonds]
                o.append_bond(Bond(b0.a2, b0.a1, label="par" if v == 2 else None, btype=BondType.Double if b0.btype != BondType.Double else BondType.Aromatic, f_order=1.5))
    lib_cls = "Molecule" if kind == "mol" else "ConformerEnsemble"  # what the library promises to return
    if recipe.get("f32cls") and kind == "mol":
        # a Molecule subclass declared through the public __init_subclass__ hook (coords_dtype=float32)
        objs = [_mol32()(o) for o in objs]
    keys = recipe["keys"][: len(objs)]
    if len(set(keys)) != len(keys) or len(keys) != len(objs):
        raise HarnessError("keys must be unique")
    expected = [dict(chem.snapshot(o, attrib_f32=True, f32=True), cls=lib_cls) for o in objs]
    path = _path("mlib" if kind == "mol" else "clib")
    enc = ENCODINGS[recipe.get("enc", 0)]     # the `encoding=` option of the library constructor: keys are stored and found whatever it says
    try:
        pre = recipe.get("pre")
        if v == 1:
            if recipe.get("peek"):
                # the same path held a CURRENT-format library before, and this process has had it open
                old_ = _lib(kind, path, readonly=False)
                with old_.reading():
                    list(old_.keys())
                del old_
                os.unlink(path)
            UKVFile(path, "x", h1=b"ML10Library").close()
            lib = _lib(kind, path, readonly=False, bufsize=BUFS[recipe["buf"]], encoding=enc)
        elif pre in ("v1", "v2"):
            # an existing library (legacy or current, holding a stale record) is overwritten
            f = UKVFile(path, "x", h1=b"ML10Library" if pre == "v1" else None)
            f.put(b"stale", b"\x90")
            f.close()
            if recipe.get("peek"):
                # ... after this process has looked into it through another handle (without overwrite)
                old_ = _lib(kind, path)
                with old_.reading():
                    list(old_.keys())
                del old_
            lib = _lib(kind, path, readonly=False, overwrite=True, bufsize=BUFS[recipe["buf"]], encoding=enc)
        else:
            lib = _lib(kind, path, readonly=False, bufsize=BUFS[recipe["buf"]], encoding=enc)

        def compare(got_obj, i, route):
            got = chem.snapshot(got_obj)
            d = chem.snap_diff(expected[i], got)
            if d is not None:
                head = d.split(":")[0]
                field = head.split("[")[0]
                sub = head.split(".")[-1] if (field in ("atoms", "bonds") and "." in head) else ""
                fails.append(Fail(f"{kind}_v{v}:field-differs:{field}{('.' + sub) if sub else ''}", f"key {keys[i]!r} via {route}: {d}"))
                return False
            return True

        def read_all(handle, route):
            try:
                ks = set(handle.keys())
            except Exception as e:
                fails.append(Fail(f"{kind}_v{v}:keys-raises", f"{route}: {e!r}"))
                return
            if ks != set(keys):
                fails.append(Fail(f"{kind}_v{v}:key-set-differs", f"{route}: {sorted(ks)!r} vs {sorted(keys)!r}"))
                return
            for i, k in enumerate(keys):
                try:
                    got = handle[k]
                except Exception as e:
                    from vf.core import exc_sig
                    fails.append(Fail(f"{kind}_v{v}:cannot-read-back:{exc_sig(e) or type(e).__name__}", f"key {k!r} via {route}: {e!r}"))
                    return
                if not compare(got, i, route):
                    return
                # what was read is the caller's own object: editing it in place and asking for the same key again
                # (nothing else in between) still yields what is STORED
                try:
                    import numpy as np
                    got.name = "edited-after-read"
                    got.charge = got.charge + 3
                    with np.errstate(all="ignore"):
                        got.coords = np.asarray(got.coords) * 0 + 7.5
                    if got.n_atoms:
                        got.atoms[0].label = "EDITED"
                    if got.n_bonds:
                        got.bonds[0].label = "EDITED"
                    again = handle[k]
                except Exception as e:
                    from vf.core import exc_sig
                    fails.append(Fail(f"{kind}_v{v}:cannot-read-back-twice:{exc_sig(e) or type(e).__name__}", f"key {k!r} via {route}: {e!r}"))
                    return
                if not compare(again, i, route + ", second read after the first result was edited in place"):
                    fails[-1].sig = fails[-1].sig.replace("field-differs", "second-read-differs")
                    return

        def read_items(handle, route):
            # the Mapping views of the library: items() pairs every key with ITS object, values() holds the same objects
            try:
                pairs = list(handle.items())
                vals = list(handle.values())
            except Exception as e:
                from vf.core import exc_sig
                fails.append(Fail(f"{kind}_v{v}:items-raises:{exc_sig(e) or type(e).__name__}", f"{route}: {e!r}"))
                return
            if sorted(k for k, _ in pairs) != sorted(keys) or len(vals) != len(keys):
                fails.append(Fail(f"{kind}_v{v}:items-key-set-differs", f"{route}: {sorted(k for k, _ in pairs)!r} vs {sorted(keys)!r}; {len(vals)} values"))
                return
            for k, got in pairs:
                if not compare(got, keys.index(k), route + " via items()"):
                    fails[-1].sig = f"{kind}_v{v}:items-pairs-key-with-another-object"
                    return

        try:
            with lib.writing():
                for k, o in zip(keys, objs):
                    lib[k] = o
                if recipe.get("read_in_session"):
                    read_all(lib, "same writing session")
        except Exception as e:
            from vf.core import exc_sig
            fails.append(Fail(f"{kind}_v{v}:cannot-store:{exc_sig(e) or type(e).__name__}", f"{e!r}"))
            return fails
        if fails:
            return fails
        with lib.reading():
            read_all(lib, "same handle, later reading session")
        if fails:
            return fails
        lib2 = _lib(kind, path, encoding=enc)
        with lib2.reading():
            read_all(lib2, "new handle")
            if not fails:
                read_items(lib2, "new handle")
        if v == 1 and not fails:
            # legacy files written by somebody else: records encoded by the harness' own v1 encoder
            # (schema tuples as documented in io.py), stored under the legacy magic, read through the library
            p2 = _path("mlib" if kind == "mol" else "clib")
            try:
                f = UKVFile(p2, "x", h1=b"ML10Library")
                for k, r in zip(keys, recipe["objs"]):
                    f.put(k.encode(), _enc_v1(kind, r, objs[keys.index(k)]))
                f.close()
                lib3 = _lib(kind, p2)
                with lib3.reading():
                    read_all(lib3, "legacy file encoded by the harness")
            finally:
                try:
                    os.unlink(p2)
                except OSError:
                    pass
        # the source objects themselves must be untouched by serialisation
        for o, e in zip(objs, expected):
            d = chem.snap_diff(e, dict(chem.snapshot(o, attrib_f32=True, f32=True), cls=lib_cls))
            if d is not None:
                fails.append(Fail(f"{kind}_v{v}:source-mutated-by-store", d))
                break
        if recipe.get("rewrite") and not fails:
            # the SAME python objects, edited in place, are stored again under new keys in a later session:
            # the new keys must read back as the edited state, the old keys as the state at their own store time
            import numpy as np

            for j, o in enumerate(objs):
                o.name = (o.name or "") + f"_m{j}"
                o.charge = o.charge + 1
                with np.errstate(all="ignore"):
                    o.coords = np.asarray(o.coords) * 0.5 + 1.25
                    o.atomic_charges = np.asarray(o.atomic_charges) + 0.5
                    if kind == "ens":
                        o.weights = np.asarray(o.weights) + 1.0
                if o.n_atoms:
                    o.atoms[0].label = "MUT"
                if v == 2:
                    o.attrib["rewritten"] = j
            keys2 = [k[:200] + "#2" for k in keys]
            expected2 = [dict(chem.snapshot(o, attrib_f32=True, f32=True), cls=lib_cls) for o in objs]
            try:
                with lib.writing():
                    for k, o in zip(keys2, objs):
                        lib[k] = o
            except Exception as e:
                from vf.core import exc_sig
                fails.append(Fail(f"{kind}_v{v}:cannot-store-again:{exc_sig(e) or type(e).__name__}", f"{e!r}"))
                return fails
            keys, expected = keys + keys2, expected + expected2
            with lib.reading():
                read_all(lib, "same handle, after edited objects were stored again")
            if not fails:
                lib4 = _lib(kind, path, encoding=enc)
                with lib4.reading():
                    read_all(lib4, "new handle, after edited objects were stored again")
            for f in fails:
                f.sig = f.sig.replace(f"{kind}_v{v}:", f"{kind}_v{v}:rewrite:", 1)
    finally:
        try:
            os.unlink(path)
        except OSError:
            pass
    return fails


def _enc_v1(kind, r, obj):
    """independent v1 encoder (positional schema of io.py: MOLECULE_SCHEMA_V1 / ENSEMBLE_SCHEMA_V1)"""
    import msgpack
    import numpy as np

    atoms = [(a["el"], a["iso"], a["label"], a["atype"], a["stereo"], a["geom"]) for a in r["atoms"]]
    ai = {id(a): i for i, a in enumerate(obj.atoms)}
    bonds = [(ai[id(b.a1)], ai[id(b.a2)], b.label, int(b.btype), int(b.stereo), float(b.f_order)) for b in obj.bonds]   # (incl. a parallel bond added after the recipe was realised)
    na = len(atoms)
    f4 = lambda x, shape: np.asarray(x, dtype=np.float64).reshape(shape).astype(">f4").tobytes()
    with np.errstate(over="ignore", invalid="ignore"):
        if kind == "mol":
            t = (obj.name, na, atoms, bonds, r["charge"], r["mult"], f4(r["coords"], (na, 3)), f4(r["charges"], (na,)))
        else:
            nc = len(r["confs"])
            t = (obj.name, nc, na, atoms, bonds, r["charge"], r["mult"], f4(r["confs"], (nc, na, 3)), f4(r["weights"], (nc,)), f4(r["conf_charges"], (nc, na)))
    return msgpack.dumps(t, use_single_float=True)


def classify(recipe):
    labels = [f"bufsize={BUFS[recipe['buf']]}", f"n_objs={len(recipe['objs'])}"] + (["edited_objects_stored_again"] if recipe.get("rewrite") else []) + (["float32_subclass"] if recipe.get("f32cls") else []) + ([f"encoding={ENCODINGS[recipe.get('enc', 0)]}"]) + (["parallel_bond"] if recipe.get("parallel") else []) + ([["", "atoms_also_in_a_live_foreign_container", "atoms_carry_a_dead_parent_reference"][recipe.get("wrapped", 0)]] if recipe.get("wrapped") else []) + ([f"overwrites_existing_{recipe['pre']}_library"] if recipe.get("pre") else [])
    nt = False
    for r in recipe["objs"]:
        na = len(r["atoms"])
        if na == 0:
            labels.append("zero_atoms")
            continue
        feats = []
        if r["bonds"]:
            feats.append("bonds")
        if any(a["atype"] != 1 or a["stereo"] or a["geom"] for a in r["atoms"]) or any(b["btype"] != 1 or b["stereo"] for b in r["bonds"]):
            feats.append("nondefault_enum")
        if r["attrib"] or any(a["attrib"] for a in r["atoms"]) or any(b["attrib"] for b in r["bonds"]):
            feats.append("attrib")
        if any(a["iso"] is not None for a in r["atoms"]):
            feats.append("isotope")
        allc = r["coords"] + [c for cf in r.get("confs", []) for c in cf]
        if any(x != x for c in allc for x in c):
            feats.append("nan_coord")
        if len(r.get("confs", [])) >= 2:
            feats.append("multi_conformer")
        if "confs" in r and len(r["confs"]) == 0:
            labels.append("zero_conformers")
        if r["charge"] < 0:
            labels.append("negative_charge")
        if "__ik" in repr(r):
            labels.append("int_key_attrib")
        for f in feats:
            labels.append(f)
        if feats:
            nt = True
    return nt, sorted(set(labels))


_keys = st.lists(
    st.one_of(st.text("abcXYZ019_- ", min_size=1, max_size=8), st.text(min_size=1, max_size=6), st.sampled_from(["k" * 255, "mol/1", "é"])).filter(lambda s: 0 < len(s.encode()) <= 255),
    min_size=3, max_size=3, unique=True,
)


def _case(kind, v, objs):
    return st.fixed_dictionaries({
        "kind": st.just(kind), "v": st.just(v), "objs": st.lists(objs, min_size=1, max_size=3), "keys": _keys,
        "buf": st.integers(0, 3), "read_in_session": st.booleans(),
        "pre": st.sampled_from([None, None, None, "v1", "v2"]) if v == 2 else st.none(),
        "rewrite": st.booleans(), "peek": st.booleans(), "enc": st.integers(0, len(ENCODINGS) - 1), "parallel": st.sampled_from([0, 0, 0, 1, 2, 5]), "wrapped": st.sampled_from([0, 0, 1, 2]),
        "f32cls": st.sampled_from([False, False, True]) if kind == "mol" else st.just(False),
    })


def strat_mol_v2(tier):
    return _case("mol", 2, chem.molecule_recipe(max_atoms=14 if tier == "quick" else 40))


def strat_ens_v2(tier):
    return _case("ens", 2, chem.ensemble_recipe(max_atoms=10 if tier == "quick" else 30, max_conf=4 if tier == "quick" else 6))


def _v1(r):
    """restrict a recipe to the v1 schema: formal charge / spin / attributes at their defaults"""
    r = dict(r, attrib={})
    r["atoms"] = [dict(a, fc=0, fs=0, attrib={}) for a in r["atoms"]]
    r["bonds"] = [dict(b, attrib={}) for b in r["bonds"]]
    return r


def strat_mol_v1(tier):
    return _case("mol", 1, chem.molecule_recipe(max_atoms=12, attribs=False).map(_v1))


def strat_ens_v1(tier):
    return _case("ens", 1, chem.ensemble_recipe(max_atoms=8, attribs=False).map(_v1))


def check_bundled(r) -> list[Fail]:
    """real molecules: every record of a bundled library is re-stored (v2, and as a generated ensemble) and read back"""
    import molli as ml
    from vf.core import tally

    fails: list[Fail] = []
    src = _lib("mol", str(getattr(ml.files, r["file"])))
    with src.reading():
        keys = sorted(src.keys())
        keys = [k for i, k in enumerate(keys) if i % r["nshards"] == r["shard"]]
        mols = [src[k] for k in keys]
    p1, p2 = _path("mlib"), _path("clib")
    try:
        lib = _lib("mol", p1, readonly=False, bufsize=BUFS[r["buf"]])
        clib = _lib("ens", p2, readonly=False, bufsize=BUFS[r["buf"]])
        enss = []
        with lib.writing(), clib.writing():
            for k, m in zip(keys, mols):
                lib[k] = m
                e = ml.ConformerEnsemble(m, n_conformers=2, coords=[m.coords, m.coords * 0.5], atomic_charges=[m.atomic_charges, m.atomic_charges + 0.25], weights=[1.0, 2.5])
                e.attrib.update(m.attrib)
                enss.append(e)
                clib[k] = e
        lib2, clib2 = _lib("mol", p1), _lib("ens", p2)
        with lib2.reading(), clib2.reading():
            if set(lib2.keys()) != set(keys) or set(clib2.keys()) != set(keys):
                fails.append(Fail("bundled:key-set-differs", r["file"]))
            for k, m, e in zip(keys, mols, enss):
                for kind, exp_obj, got in (("mol", m, lib2[k]), ("ens", e, clib2[k])):
                    d = chem.snap_diff(chem.snapshot(exp_obj, attrib_f32=True, f32=True), chem.snapshot(got))
                    if d is not None:
                        head = d.split(":")[0]
                        field = head.split("[")[0] + ("." + head.split(".")[-1] if head.split("[")[0] in ("atoms", "bonds") and "." in head else "")
                        fails.append(Fail(f"bundled:{kind}:field-differs:{field}", f"{r['file']}[{k!r}]: {d}"))
                        break
        tally(units=max(0, 2 * len(keys) - 1), nontrivial_keys=[(r["file"], k, kind) for k in keys for kind in ("mol", "ens")])
    finally:
        for p_ in (p1, p2):
            try:
                os.unlink(p_)
            except OSError:
                pass
    seen, out = set(), []
    for f in fails:
        if f.sig not in seen:
            seen.add(f.sig)
            out.append(f)
    return out


def enum_bundled(tier, shard, nshards):
    i = 0
    for fl in ("tiny_bpa_raw_conf", "box_no_conf", "cinchonidine_no_conf", "fletcher_phosphoramidite"):
        for sh in range(4):
            if i % nshards == shard:
                yield {"file": fl, "shard": sh, "nshards": 4, "buf": i % 4}
            i += 1


_RULE = ("1-3 generated objects per library (0-14/40 atoms, all elements, every enum member, None/'' labels, nested attributes incl. bytes / numpy arrays / int keys, "
         "NaN / inf / signed-zero / 1e30 coordinates, 0-4 conformers), bufsize from {-1,0,64,1e6}; non-trivial = >=1 atom and at least one of: bond, non-default enum, "
         "non-empty attrib, isotope, NaN coordinate, >=2 conformers; distinct = canonical recipe hash")

LEGS = [
    Leg("bundled", check_bundled, lambda r: (False, ["file=" + r["file"]]), enumerate=enum_bundled, exhaustive=True, shards={"quick": 16, "thorough": 16},
        rule="EVERY molecule of the 4 bundled libraries (2 legacy v1, 2 current; 213 molecules of 48-114 atoms) re-stored in a fresh MoleculeLibrary and, as a two-conformer ensemble with distinct charges / weights, in a ConformerLibrary; read back through new handles; evaluations = records"),
    Leg("mol_v2", check, classify, strategy=strat_mol_v2, n={"quick": 2500, "thorough": 40000}, shards={"quick": 16, "thorough": 32}, rule=_RULE),
    Leg("ens_v2", check, classify, strategy=strat_ens_v2, n={"quick": 1200, "thorough": 20000}, shards={"quick": 16, "thorough": 32}, rule=_RULE),
    Leg("mol_v1", check, classify, strategy=strat_mol_v1, n={"quick": 500, "thorough": 8000}, shards={"quick": 8, "thorough": 16}, rule="legacy encoding (file magic ML10Library), recipes restricted to the v1 schema; " + _RULE),
    Leg("ens_v1", check, classify, strategy=strat_ens_v1, n={"quick": 500, "thorough": 8000}, shards={"quick": 8, "thorough": 16}, rule="legacy encoding, ensembles; " + _RULE),
]
