"""One process of a real multi-process schedule (C04 leg 'real').
argv: path idx nproc nsessions seed logdir"""
import hashlib
import json
import os
import random
import sys
import time


def fval(key: str) -> bytes:
    h = hashlib.sha256(key.encode()).digest()
    n = (h[0] * 97) % 21000 if h[1] % 3 else h[0] % 64
    return (h * (n // 32 + 1))[:n]


def main():
    path, idx, nproc, nsess, seed, logdir = sys.argv[1], int(sys.argv[2]), int(sys.argv[3]), int(sys.argv[4]), int(sys.argv[5]), sys.argv[6]
    from vf.c04_common import make_handle, Boom, MARK, BADKEY, InjectedIOError

    rng = random.Random(seed * 1000 + idx)
    c = make_handle(path, False, rng.choice([-1, 0, 64, 10**6]))
    be = c._backend
    log = open(os.path.join(logdir, f"log{idx}.jsonl"), "a", buffering=1)
    donef = os.path.join(logdir, f"done{idx}")
    open(donef, "ab").close()

    def others_done():
        tot = 0
        for j in range(nproc):
            if j != idx:
                try:
                    tot += os.stat(os.path.join(logdir, f"done{j}")).st_size
                except OSError:
                    pass
        return tot

    def others_finished():
        # finished, or themselves idle in a hand-over wait (two failing processes must not wait for each other)
        return all(
            os.path.exists(os.path.join(logdir, f"fin{j}")) or os.path.exists(os.path.join(logdir, f"wait{j}"))
            for j in range(nproc) if j != idx
        )

    # start barrier
    open(os.path.join(logdir, f"ready{idx}"), "w").close()
    t0 = time.time()
    while not all(os.path.exists(os.path.join(logdir, f"ready{j}")) for j in range(nproc)):
        if time.time() - t0 > 60:
            break
        time.sleep(0.005)

    ACQ = 45.0
    for i in range(nsess):
        time.sleep(rng.random() * 0.004)
        r = rng.random()
        kind = "read" if r < 0.33 else "write" if r < 0.72 else rng.choice(["fail_body", "fail_encoder", "fail_flush", "fail_end_write", "read_fail_body"])
        keys = [f"p{idx}s{i}k{j}" for j in range(3)]
        ent = {"p": idx, "i": i, "kind": kind, "put": [], "exc": None, "seen": None}
        ent["t_req"] = time.monotonic_ns()
        restore = None
        try:
            if kind in ("read", "read_fail_body"):
                with c.reading(timeout=ACQ):
                    ent["t_in"] = time.monotonic_ns()
                    seen = {}
                    for k in sorted(c.keys()):
                        v = c[k]
                        seen[k] = hashlib.sha1(v).hexdigest()[:12]
                        if rng.random() < 0.05:
                            time.sleep(0.0005)
                    ent["seen"] = seen
                    ent["t_out"] = time.monotonic_ns()
                    if kind == "read_fail_body":
                        raise Boom()
            else:
                if kind == "fail_end_write":
                    real = be.end_write

                    def end_write():
                        real()
                        raise InjectedIOError("injected")

                    be.end_write = end_write
                    restore = real
                with c.writing(timeout=ACQ):
                    ent["t_in"] = time.monotonic_ns()
                    n = rng.randint(1, 3)
                    for j in range(n):
                        if kind == "fail_encoder" and j == n - 1:
                            ent["t_out"] = time.monotonic_ns()
                            c[keys[j]] = MARK
                        if kind == "fail_flush" and j == n - 1:
                            ent["t_out"] = time.monotonic_ns()
                            c[BADKEY] = b"x"
                        c[keys[j]] = fval(keys[j])
                        ent["put"].append(keys[j])
                        if rng.random() < 0.5:
                            time.sleep(rng.random() * 0.002)
                    ent["t_out"] = time.monotonic_ns()
                    if kind == "fail_body":
                        raise Boom()
        except TimeoutError:
            ent["exc"] = "TimeoutError"
        except BaseException as e:  # noqa
            if isinstance(e, (KeyboardInterrupt, SystemExit)):
                raise
            ent["exc"] = type(e).__name__
        finally:
            if restore is not None:
                be.end_write = restore
        ent["t_rel"] = time.monotonic_ns()
        log.write(json.dumps(ent) + "\n")
        with open(donef, "ab") as f:
            f.write(b".")
        if ent["exc"] == "TimeoutError":
            break
        if ent["exc"] is not None:
            # owned hand-over: after a failing session this process stays idle until some other
            # process has completed a session (or all others are finished). Nobody holds the lock
            # legitimately on behalf of this process, so a 20 s stall means it was not released.
            t1 = time.time()
            base = others_done()
            wf = os.path.join(logdir, f"wait{idx}")
            open(wf, "w").close()
            try:
                while others_done() <= base and not others_finished():
                    if time.time() - t1 > 20:
                        log.write(json.dumps({"p": idx, "i": i, "stall_after": kind}) + "\n")
                        open(os.path.join(logdir, f"fin{idx}"), "w").close()
                        return
                    time.sleep(0.002)
            finally:
                os.unlink(wf)
    open(os.path.join(logdir, f"fin{idx}"), "w").close()


if __name__ == "__main__":
    main()
