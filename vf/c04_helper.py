"""Long-lived helper process for C04: executes sessions on its own Collection handles, or probes a lock.
Protocol: one JSON object per line on stdin -> one JSON object per line on stdout."""
import json
import os
import sys


def main():
    out = sys.stdout
    handles = {}
    for line in sys.stdin:
        try:
            cmd = json.loads(line)
            op = cmd["op"]
            if op == "probe":
                from fasteners import InterProcessReaderWriterLock

                lk = InterProcessReaderWriterLock(cmd["lockpath"])
                ok = lk.acquire_write_lock(timeout=cmd.get("timeout", 10.0))
                if ok:
                    lk.release_write_lock()
                rep = {"ok": bool(ok)}
            elif op == "new":
                from vf.c04_common import make_handle

                try:
                    os.getcwd()
                except OSError:
                    os.chdir("/")      # (an earlier relative-path scenario may have left this process in a directory that is gone)

                handles.clear()
                for hid, spec in cmd["handles"].items():
                    if spec.get("plain"):
                        # an uninstrumented handle (picklable)
                        import atexit
                        from molli.storage import Collection, UkvCollectionBackend

                        handles[hid] = Collection(cmd["path"], UkvCollectionBackend, readonly=spec["ro"], bufsize=spec["buf"])
                        if not spec.get("keep_atexit"):
                            atexit.unregister(handles[hid]._backend.flush)   # (keep_atexit: a handle exactly as a user's program has it)
                    else:
                        handles[hid] = make_handle(cmd["path"], spec["ro"], spec["buf"])
                rep = {"ok": True}
            elif op == "new_rel":
                # the program names its libraries by RELATIVE path: first one of the same spelling in another directory, then - after a
                # chdir - the library under test
                from vf.c04_common import make_handle

                handles.clear()
                os.makedirs(cmd["other_dir"], exist_ok=True)
                os.chdir(cmd["other_dir"])
                handles["_other"] = make_handle(os.path.basename(cmd["path"]), False, -1)
                os.chdir(os.path.dirname(cmd["path"]))
                for hid, spec in cmd["handles"].items():
                    handles[hid] = make_handle(os.path.basename(cmd["path"]), spec["ro"], spec["buf"])
                rep = {"ok": True}
            elif op == "new_gated":
                # construct a handle, but stop right before its FIRST lock acquisition until the driver opens the gate:
                # the driver owns the interleaving "constructor of one process vs. completed sessions of another"
                import time
                import fasteners
                from vf.c04_common import make_handle

                cls_ = fasteners.InterProcessReaderWriterLock
                real_acq = cls_.acquire_write_lock
                state = {"first": True}

                def gated(self, *a, **k):
                    if state["first"]:
                        state["first"] = False
                        open(cmd["at_file"], "w").close()
                        t0 = time.time()
                        while not os.path.exists(cmd["gate_file"]) and time.time() - t0 < 30:
                            time.sleep(0.01)
                    return real_acq(self, *a, **k)

                cls_.acquire_write_lock = gated
                try:
                    handles.clear()
                    for hid, spec in cmd["handles"].items():
                        handles[hid] = make_handle(cmd["path"], spec["ro"], spec["buf"])
                finally:
                    cls_.acquire_write_lock = real_acq
                rep = {"ok": True, "gated": not state["first"]}
            elif op == "session_hold":
                # enters a session (writing or reading), signals that it is inside, and stays there until the driver opens the gate
                import time

                c_ = handles[cmd["h"]]
                cm = c_.writing(timeout=10) if cmd["mode"] == "w" else c_.reading(timeout=10)
                with cm:
                    if cmd["mode"] == "w":
                        c_[cmd["key"]] = bytes.fromhex(cmd["val"])
                    during = cmd.get("during")
                    if during == "drop":
                        # the program lets go of ANOTHER handle of the same library (one whose last request timed out) inside this session
                        import gc

                        handles.pop(cmd["idle"], None)
                        gc.collect()
                    elif during:
                        # inside the session this process copies an IDLE handle of the same library (no session is begun on the copy)
                        import copy
                        import pickle
                        import atexit

                        idle = handles[cmd["idle"]]
                        cp = pickle.loads(pickle.dumps(idle)) if during == "unpickle" else copy.deepcopy(idle)
                        atexit.unregister(cp._backend.flush)
                        handles["_copy"] = cp
                    open(cmd["at_file"], "w").close()
                    t0 = time.time()
                    while not os.path.exists(cmd["gate_file"]) and time.time() - t0 < 60:
                        time.sleep(0.01)
                rep = {"ok": True}
            elif op == "try_session":
                # asks for a writing session with a short timeout; reports whether it got in (and leaves at once)
                entered = False
                try:
                    with handles[cmd["h"]].writing(timeout=cmd["timeout"]):
                        entered = True
                except TimeoutError:
                    pass
                rep = {"ok": True, "entered": entered}
            elif op == "session":
                from vf.c04_common import run_session

                rep = run_session(handles[cmd["h"]], cmd["kind"], cmd["keys"], [bytes.fromhex(v) for v in cmd["vals"]])
            elif op == "quit":
                break
            else:
                rep = {"error": f"unknown op {op}"}
        except BaseException as e:  # noqa
            import traceback

            rep = {"error": traceback.format_exc(limit=6)}
        out.write(json.dumps(rep) + "\n")
        out.flush()


if __name__ == "__main__":
    main()
