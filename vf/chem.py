"""Recipes (JSON-able descriptions) -> molli objects through the public API, structural
snapshots, tolerant comparison, and the Hypothesis strategies that produce recipes."""
from __future__ import annotations

import functools
import math
from typing import Any

import numpy as np
from hypothesis import strategies as st

# ------------------------------------------------------------------ enums (values, enumerated from the tree at import)


@functools.cache
def enums():
    import molli as ml
    from molli.chem import AtomType, AtomStereo, AtomGeom, BondType, BondStereo, Element

    return dict(
        atype=sorted({int(x) for x in AtomType}),
        astereo=sorted({int(x) for x in AtomStereo}),
        ageom=sorted({int(x) for x in AtomGeom}),
        btype=sorted({int(x) for x in BondType}),
        bstereo=sorted({int(x) for x in BondStereo}),
        element=sorted({int(x) for x in Element}),
    )


# ------------------------------------------------------------------ attribute values
def dec_attr(x):
    """recipe encoding -> python value"""
    if isinstance(x, dict):
        if "__b" in x:
            return bytes.fromhex(x["__b"])
        if "__nd" in x:
            return np.array(x["__nd"], dtype=x.get("dtype", "float64"))
        if "__ik" in x:
            return {k: dec_attr(v) for k, v in x["__ik"]}
        if "__tk" in x:
            return {tuple(k): dec_attr(v) for k, v in x["__tk"]}     # keys that are tuples of integers (atom index tuples)
        return {k: dec_attr(v) for k, v in x.items()}
    if isinstance(x, list):
        return [dec_attr(v) for v in x]
    return x


def norm_attr(x, f32=False):
    """python value (before or after a round trip) -> canonical comparable form"""
    if isinstance(x, np.ndarray):
        return ("nd", str(x.dtype), x.shape, x.tobytes())
    if isinstance(x, np.generic):
        x = x.item()
    if isinstance(x, dict):
        # (a dict SUBCLASS - Counter, OrderedDict, defaultdict - is a different value than a plain dict with the same items)
        return ("map" if type(x) is dict else "map:" + type(x).__name__, tuple(sorted(((repr(type(k).__name__), repr(k)), norm_attr(v, f32)) for k, v in x.items())))
    if isinstance(x, (set, frozenset)):
        return ("set:" + type(x).__name__, tuple(sorted(norm_attr(v, f32) for v in x)))
    if isinstance(x, (list, tuple)):
        return ("seq", tuple(norm_attr(v, f32) for v in x))
    if isinstance(x, float):
        if f32:
            with np.errstate(over="ignore"):
                x = float(np.float32(x))
        if x != x:
            return ("nan",)
        return ("f", x)
    if isinstance(x, bool):
        return ("b", x)
    if isinstance(x, int):
        return ("i", x)
    if isinstance(x, bytes):
        return ("bytes", x)
    if isinstance(x, str):
        return ("s", x)
    if x is None:
        return ("none",)
    return ("other", repr(x))


_attr_scalars = st.one_of(
    st.none(), st.booleans(), st.integers(-(2**63), 2**63 - 1), st.integers(-5, 5),
    st.floats(allow_nan=False, width=32), st.floats(min_value=-1e30, max_value=1e30),
    st.text(max_size=8), st.sampled_from(["", "smiles", "C1=CC=CC=C1", "é"]),
    st.binary(max_size=6).map(lambda b: {"__b": b.hex()}),
)
_attr_keys = st.one_of(st.sampled_from(["a", "b", "name", "__x", ""]), st.text(max_size=5)).filter(lambda k: k not in ("__b", "__nd", "__ik", "__tk", "dtype"))


@functools.cache
def attr_values(int_keys=True, arrays=True):
    extra = []
    if arrays:
        extra.append(st.lists(st.floats(-1e3, 1e3, width=32), max_size=4).map(lambda l: {"__nd": l, "dtype": "float64"}))
        extra.append(st.lists(st.integers(-100, 100), max_size=4).map(lambda l: {"__nd": l, "dtype": "int64"}))

    def ext(children):
        opts = [st.lists(children, max_size=3), st.dictionaries(_attr_keys, children, max_size=3)]
        if int_keys:
            opts.append(st.lists(st.tuples(st.integers(-3, 300), children).map(list), max_size=2, unique_by=lambda kv: kv[0]).map(lambda kv: {"__ik": kv}))
            opts.append(st.lists(st.tuples(st.lists(st.integers(0, 40), min_size=1, max_size=4), children).map(list), max_size=2, unique_by=lambda kv: tuple(kv[0])).map(lambda kv: {"__tk": kv}))
        return st.one_of(*opts)

    return st.recursive(st.one_of(_attr_scalars, *extra), ext, max_leaves=6)


@functools.cache
def attrib_dict(int_keys=True, arrays=True, p_empty=0.6):
    return st.one_of(
        st.just({}),
        st.just({}) if p_empty > 0.5 else st.nothing(),
        st.dictionaries(_attr_keys, attr_values(int_keys, arrays), max_size=3),
    )


# ------------------------------------------------------------------ strategies for molecules
COMMON = [1, 6, 7, 8, 9, 15, 16, 17, 35, 5, 14]


@functools.cache
def element_z():
    return st.one_of(st.sampled_from(COMMON), st.sampled_from(COMMON), st.integers(0, 118), st.sampled_from([0, 118, 46, 26]))


@functools.cache
def coord_value(special=True):
    opts = [
        st.floats(-50, 50, width=32),
        st.floats(-50, 50),
        st.floats(allow_nan=False, allow_infinity=False, min_value=-1e30, max_value=1e30),
    ]
    if special:
        opts += [st.sampled_from([float("nan"), float("inf"), float("-inf"), -0.0, 0.0, 1e-7, -123456.789])]
    return st.one_of(*opts)


@functools.cache
def labels(mol2_safe=False):
    if mol2_safe:
        return st.one_of(st.none(), st.just(""), st.text("ABCDEFGHIJKLMNOPQRSTUVWXYZabcxyz0123456789_*'+-#@<>.,:;!?()[]{}/\\|=%&$~^\"", min_size=1, max_size=6),
                         st.sampled_from(["H#1", "#", "C@", "@<TRIPOS>ATOM", "1", "0.5", "nan",
                                          # tokens that mean something elsewhere in the format
                                          "****", "***", "<0>", "<1>", "SMALL", "NO_CHARGES", "USER_CHARGES", "Du", "LP", "Any", "@<TRIPOS>BOND", "None", "Cα", "Å1"]))
    return st.one_of(st.none(), st.just(""), st.text(max_size=6), st.sampled_from(["C1", "H 2", "α"]))


@functools.cache
def atom_recipe(full=True, attribs=True, mol2_safe=False):
    e = enums()
    if full:
        return st.fixed_dictionaries({
            "el": element_z(),
            "iso": st.one_of(st.none(), st.none(), st.integers(0, 300)),
            "label": labels(mol2_safe),
            "atype": st.one_of(st.just(1), st.sampled_from(e["atype"])),
            "stereo": st.one_of(st.just(0), st.sampled_from(e["astereo"])),
            "geom": st.one_of(st.just(0), st.sampled_from(e["ageom"])),
            "fc": st.one_of(st.just(0), st.integers(-3, 3)),
            "fs": st.one_of(st.just(0), st.integers(0, 3)),
            "attrib": attrib_dict() if attribs else st.just({}),
        })
    return st.fixed_dictionaries({"el": element_z(), "iso": st.none(), "label": labels(mol2_safe), "atype": st.just(1), "stereo": st.just(0), "geom": st.just(0),
                                  "fc": st.just(0), "fs": st.just(0), "attrib": st.just({})})


@functools.cache
def bond_fields(full=True, attribs=True):
    e = enums()
    if full:
        return st.fixed_dictionaries({
            "flip": st.booleans(),
            "label": st.one_of(st.none(), st.text(max_size=4)),
            "btype": st.one_of(st.just(1), st.sampled_from(e["btype"])),
            "stereo": st.one_of(st.just(0), st.sampled_from(e["bstereo"])),
            "f_order": st.one_of(st.just(1.0), st.floats(0, 4, width=32), st.just(1.5)),
            "attrib": attrib_dict() if attribs else st.just({}),
        })
    return st.fixed_dictionaries({"flip": st.booleans(), "label": st.none(), "btype": st.sampled_from([1, 2, 3, 20]), "stereo": st.just(0), "f_order": st.just(1.0), "attrib": st.just({})})


@functools.cache
def names(mol2_safe=False):
    if mol2_safe:
        return st.one_of(
            st.text("ABCDEFGHIJKLMNOPQRSTUVWXYZabcdefghijklmnopqrstuvwxyz0123456789_-+.()[] #@<>,:;!?{}/\\|=%&$~^'\"*", min_size=1, max_size=12).map(str.strip).filter(lambda s: len(s) > 0),
            st.sampled_from(["ligand #7 (batch A)", "#1", "# Produced", "@<TRIPOS>MOLECULE", "@<TRIPOS>ATOM", "****", "12 3", "a  b", "α_pinene_2Å", "naïve-é", "名前", "Au-PPh3", "ligand 7 (au)", "[Au(CN)2]-", "bohr", "coords in a.u.", "pm 3", "nm", "Angstrom", "fm"]),
        )
    return st.one_of(st.none(), st.just(""), st.text(max_size=10), st.sampled_from(["mol", "a b", "x_1", "Au-PPh3", "ligand 7 (au)", "bohr", "coords in a.u.", "nm", "pm 3", "Angstrom"]))


@st.composite
def molecule_recipe(draw, max_atoms=14, max_bonds=20, full=True, special_coords=True, attribs=True, mol2_safe=False, min_atoms=0):
    na = draw(st.one_of(st.integers(min_atoms, max(min_atoms, 4)), st.integers(min_atoms, max_atoms)))
    atoms = draw(st.lists(atom_recipe(full, attribs, mol2_safe), min_size=na, max_size=na))
    cv = coord_value(special_coords)
    coords = draw(st.lists(st.lists(cv, min_size=3, max_size=3), min_size=na, max_size=na))
    charges = draw(st.one_of(st.just([0.0] * na), st.lists(st.floats(-3, 3, width=32), min_size=na, max_size=na)))
    pairs = [(i, j) for i in range(na) for j in range(i + 1, na)]
    bonds = []
    if pairs:
        chosen = draw(st.lists(st.sampled_from(pairs), max_size=max_bonds, unique=True))
        fields = draw(st.lists(bond_fields(full, attribs), min_size=len(chosen), max_size=len(chosen)))
        for (i, j), f in zip(chosen, fields):
            f = dict(f)
            if f.pop("flip"):
                i, j = j, i
            bonds.append(dict(a=i, b=j, **f))
    return {
        "name": draw(names(mol2_safe)),
        "charge": draw(st.one_of(st.just(0), st.integers(-5, 5))),
        "mult": draw(st.one_of(st.just(1), st.integers(1, 6))),
        "attrib": draw(attrib_dict()) if attribs else {},
        "atoms": atoms, "coords": coords, "charges": charges, "bonds": bonds,
    }


@st.composite
def ensemble_recipe(draw, max_conf=4, **kw):
    m = draw(molecule_recipe(**kw))
    na = len(m["atoms"])
    nc = draw(st.integers(0, max_conf))
    cv = coord_value(kw.get("special_coords", True))
    m["confs"] = draw(st.lists(st.lists(st.lists(cv, min_size=3, max_size=3), min_size=na, max_size=na), min_size=nc, max_size=nc))
    m["weights"] = draw(st.lists(st.floats(0, 10, width=32), min_size=nc, max_size=nc))
    m["conf_charges"] = draw(st.lists(st.lists(st.floats(-3, 3, width=32), min_size=na, max_size=na), min_size=nc, max_size=nc))
    return m


# ------------------------------------------------------------------ build
def build_atoms(r):
    from molli.chem import Atom, AtomType, AtomStereo, AtomGeom

    out = []
    for a in r["atoms"]:
        out.append(
            Atom(
                element=a["el"], isotope=a["iso"], label=a["label"],
                atype=AtomType(a["atype"]), stereo=AtomStereo(a["stereo"]), geom=AtomGeom(a["geom"]),
                formal_charge=a["fc"], formal_spin=a["fs"], attrib=dec_attr(a["attrib"]),
            )
        )
    return out


def _connect(obj, r):
    from molli.chem import BondType, BondStereo

    for k, b in enumerate(r["bonds"]):
        if k % 2 == 0:
            obj.connect(b["a"], b["b"], label=b["label"], btype=BondType(b["btype"]), stereo=BondStereo(b["stereo"]), f_order=b["f_order"], attrib=dec_attr(b["attrib"]))
        else:
            # every other bond reaches its state by ASSIGNMENT after a plain connect() (what editing code does): same final state
            obj.connect(b["a"], b["b"])
            nb = obj.bonds[-1]
            nb.label, nb.btype, nb.stereo, nb.f_order = b["label"], BondType(b["btype"]), BondStereo(b["stereo"]), b["f_order"]
            nb.attrib = dec_attr(b["attrib"])
    # the atoms' annotations are what the recipe says AFTER the bonds exist (an annotation assigned to a finished structure)
    from molli.chem import AtomType, AtomStereo, AtomGeom
    for a_, ra in zip(obj.atoms, r["atoms"]):
        a_.atype, a_.stereo, a_.geom = AtomType(ra["atype"]), AtomStereo(ra["stereo"]), AtomGeom(ra["geom"])
        a_.formal_charge, a_.formal_spin, a_.isotope, a_.label = ra["fc"], ra["fs"], ra["iso"], ra["label"]


def build_molecule(r, cls=None):
    import molli as ml

    cls = cls or ml.Molecule
    atoms = build_atoms(r)
    na = len(atoms)
    kw = {}
    if issubclass(cls, ml.Molecule):
        kw["atomic_charges"] = np.array(r["charges"], dtype=float)
    m = cls(
        atoms, name=r["name"], charge=r["charge"], mult=r["mult"],
        coords=np.array(r["coords"], dtype=float).reshape((na, 3)), attrib=dec_attr(r["attrib"]), **kw,
    )
    _connect(m, r)
    return m


def build_ensemble(r):
    import molli as ml

    atoms = build_atoms(r)
    na, nc = len(atoms), len(r["confs"])
    e = ml.ConformerEnsemble(
        atoms if atoms else None, n_conformers=nc, n_atoms=na, name=r["name"], charge=r["charge"], mult=r["mult"],
        coords=np.array(r["confs"], dtype=float).reshape((nc, na, 3)),
        weights=np.array(r["weights"], dtype=float).reshape((nc,)),
        atomic_charges=np.array(r["conf_charges"], dtype=float).reshape((nc, na)),
        attrib=dec_attr(r["attrib"]),
    )
    _connect(e, r)
    return e


# ------------------------------------------------------------------ snapshots
def _ival(x):
    return None if x is None else int(x)


def snap_atoms(obj, attrib_f32=False):
    out = []
    for a in obj.atoms:
        out.append((
            int(a.element), a.isotope, a.label, int(a.atype), int(a.stereo), int(a.geom), a.formal_charge, a.formal_spin,
            norm_attr(a.attrib, attrib_f32),
        ))
    return out


def snap_bonds(obj, attrib_f32=False, f32=False):
    idx = {id(a): i for i, a in enumerate(obj.atoms)}
    out = []
    for b in obj.bonds:
        fo = b.f_order
        if f32 and isinstance(fo, float):
            fo = float(np.float32(fo))
        out.append((idx.get(id(b.a1), -1), idx.get(id(b.a2), -1), b.label, int(b.btype), int(b.stereo), fo, norm_attr(b.attrib, attrib_f32)))
    return out


def arr_f32(a):
    with np.errstate(over="ignore", invalid="ignore"):
        return np.asarray(a, dtype=np.float64).astype(np.float32)


def arr_equal(a, b):
    a, b = np.asarray(a), np.asarray(b)
    return a.shape == b.shape and bool(np.array_equal(a, b, equal_nan=True))


def snapshot(obj, attrib_f32=False, f32=False) -> dict:
    """Deep structural snapshot.  f32: arrays are rounded to float32 first (library precision)."""
    conv = arr_f32 if f32 else (lambda a: np.array(a, dtype=np.float64, copy=True))
    s = {
        "cls": type(obj).__name__,
        "name": getattr(obj, "name", None),
        "charge": getattr(obj, "charge", None),
        "mult": getattr(obj, "mult", None),
        "attrib": norm_attr(getattr(obj, "attrib", {}), attrib_f32),
        "atoms": snap_atoms(obj, attrib_f32),
    }
    if hasattr(obj, "bonds"):
        s["bonds"] = snap_bonds(obj, attrib_f32, f32)
    if hasattr(obj, "coords"):
        s["coords"] = conv(obj.coords)
    if hasattr(obj, "atomic_charges"):
        ac = obj.atomic_charges
        s["charges_dtype_kind"] = np.asarray(ac).dtype.kind
        try:
            s["charges"] = conv(ac)
        except (TypeError, ValueError):
            s["charges"] = ("unconvertible", repr(ac))
    if hasattr(obj, "weights"):
        s["weights"] = conv(obj.weights)
    return s


def snap_diff(exp: dict, got: dict, skip=()) -> str | None:
    """first difference between two snapshots, or None"""
    for k in exp:
        if k in skip:
            continue
        if k not in got:
            return f"{k}: missing"
        e, g = exp[k], got[k]
        if isinstance(e, np.ndarray) or isinstance(g, np.ndarray):
            if not (isinstance(e, np.ndarray) and isinstance(g, np.ndarray)):
                return f"{k}: {type(e).__name__} vs {type(g).__name__}"
            if e.shape != g.shape:
                return f"{k}: shape {e.shape} vs {g.shape}"
            if not np.array_equal(e, g, equal_nan=True):
                bad = np.argwhere(~((e == g) | (np.isnan(e) & np.isnan(g))))
                i = tuple(bad[0])
                return f"{k}{list(i)}: expected {e[i]!r} got {g[i]!r}"
        elif k in ("atoms", "bonds"):
            if len(e) != len(g):
                return f"{k}: count {len(e)} vs {len(g)}"
            for i, (x, y) in enumerate(zip(e, g)):
                if _cmp(x) != _cmp(y):
                    names = ("element", "isotope", "label", "atype", "stereo", "geom", "formal_charge", "formal_spin", "attrib") if k == "atoms" else ("a1", "a2", "label", "btype", "stereo", "f_order", "attrib")
                    for n, xx, yy in zip(names, x, y):
                        if _cmp(xx) != _cmp(yy):
                            return f"{k}[{i}].{n}: expected {xx!r} got {yy!r}"
        else:
            if _cmp(e) != _cmp(g):
                return f"{k}: expected {e!r} got {g!r}"
    return None


def _cmp(x):
    if isinstance(x, float) and x != x:
        return ("nan",)
    if isinstance(x, tuple):
        return tuple(_cmp(i) for i in x)
    return x
