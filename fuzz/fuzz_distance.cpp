// libFuzzer target for molli_xt/distance.cpp (compiled from the working tree against /verif/shim).
// Input bytes -> (registration index, float width, shapes, coordinates); the semantic oracle (naive double loops,
// meaning of each registered NAME) runs inside the target.  Sanitizers catch memory errors / UB.
#include <_molli_xt.hpp>
#include <cmath>
#include <cstdio>
#include <cstdlib>
#include <set>
#include <string>
#include <vector>

namespace py = pybind11;
static py::module_ M;

static void violation(const char *kind, const std::string &name, const char *msg, double got, double want)
{
    fprintf(stderr, "ORACLE-VIOLATION kind=%s name=%s %s got=%.9g want=%.9g\n", kind, name.c_str(), msg, got, want);
    abort();
}

extern "C" int LLVMFuzzerInitialize(int *, char ***)
{
    molli::_init_distance(M);
    std::multiset<std::string> names;
    for (auto &p : M.f32)
        names.insert(p.first);
    for (auto &p : M.f64)
        names.insert(p.first);
    for (auto &n : names)
        fprintf(stderr, "REGISTERED %s\n", n.c_str());
    const char *generic[] = {"cdist22_eu", "cdist22_eu2", "cdist32_eu", "cdist32_eu2"};
    for (auto g : generic)
        if (names.count(g) != 2)
            violation("missing-name", g, "generic name must be registered for float and double", (double)names.count(g), 2);
    const char *expl[] = {"cdist22f_eu", "cdist22d_eu", "cdist22f_eu2", "cdist22d_eu2", "cdist32f_eu", "cdist32d_eu", "cdist32f_eu2", "cdist32d_eu2"};
    for (auto g : expl)
        if (names.count(g) != 1)
            violation("missing-name", g, "explicit name must be registered once", (double)names.count(g), 1);
    // explicit names must have the width their name says
    for (auto &p : M.f32)
        if (p.first.size() > 7 && p.first[7] == 'd')
            violation("name-width-mismatch", p.first, "d-name registered with the float kernel", 32, 64);
    for (auto &p : M.f64)
        if (p.first.size() > 7 && p.first[7] == 'f')
            violation("name-width-mismatch", p.first, "f-name registered with the double kernel", 64, 32);
    return 0;
}

template <typename T, typename FN>
static void run(const std::string &name, FN fn, const uint8_t *d, size_t n)
{
    using arr = py::array_t<T, py::array::c_style | py::array::forcecast>;
    if (n < 3)
        return;
    bool is32 = name.find("32") != std::string::npos;
    bool squared = name.size() >= 3 && name.compare(name.size() - 3, 3, "eu2") == 0;
    ssize_t L1 = d[0] % 9, L2 = d[1] % 9, X = is32 ? 1 + d[2] % 3 : 1;
    d += 3;
    n -= 3;
    size_t k = 0;
    auto next = [&]() -> T
    {
        if (n == 0)
            return (T)0.25;
        int8_t b = (int8_t)d[k % n];
        uint8_t m = d[(k * 7 + 3) % n];
        k++;
        return (T)((double)b / 8.0 * (m % 5 == 0 ? 100.0 : 1.0));
    };
    std::vector<T> a((size_t)(X * L1 * 3)), b((size_t)(L2 * 3));
    for (auto &v : a)
        v = next();
    for (auto &v : b)
        v = next();
    arr A(is32 ? std::vector<py::ssize_t>{X, L1, 3} : std::vector<py::ssize_t>{L1, 3}, a.data());
    arr B(std::vector<py::ssize_t>{L2, 3}, b.data());
    arr R = fn(A, B);
    size_t want_dims = is32 ? 3 : 2;
    if (R.shp.size() != want_dims || R.shp[want_dims - 2] != L1 || R.shp[want_dims - 1] != L2 || (is32 && R.shp[0] != X))
        violation("shape", name, "output shape", (double)R.size(), (double)(X * L1 * L2));
    double tol = sizeof(T) == 4 ? 2e-5 : 1e-12;
    for (ssize_t x = 0; x < X; ++x)
        for (ssize_t i = 0; i < L1; ++i)
            for (ssize_t j = 0; j < L2; ++j)
            {
                double s = 0;
                for (int c = 0; c < 3; ++c)
                {
                    double t = (double)a[(size_t)((x * L1 + i) * 3 + c)] - (double)b[(size_t)(j * 3 + c)];
                    s += t * t;
                }
                double want = squared ? s : std::sqrt(s);
                double got = (double)R.data()[(x * L1 + i) * L2 + j];
                if (!(std::fabs(got - want) <= tol * std::fmax(1.0, std::fabs(want))))
                    violation(squared ? "squared-distance-wrong" : "distance-wrong", name, "element differs from naive evaluation", got, want);
            }
}

extern "C" int LLVMFuzzerTestOneInput(const uint8_t *data, size_t size)
{
    if (size < 2)
        return 0;
    size_t total = M.f32.size() + M.f64.size();
    if (total == 0)
        violation("missing-name", "-", "nothing registered", 0, 16);
    size_t which = data[0] % total;
    if (which < M.f32.size())
        run<float>(M.f32[which].first, M.f32[which].second, data + 1, size - 1);
    else
        run<double>(M.f64[which - M.f32.size()].first, M.f64[which - M.f32.size()].second, data + 1, size - 1);
    return 0;
}
