// Minimal stand-in for pybind11 (not installed in this sandbox): just enough for molli_xt/distance.cpp
// to compile unmodified with clang++ under ASan/UBSan/libFuzzer.  Written for /verif (C19 native leg).
#pragma once
#include <cstddef>
#include <cstdint>
#include <cstring>
#include <initializer_list>
#include <memory>
#include <string>
#include <utility>
#include <vector>
#include <sys/types.h>

namespace pybind11
{
    using ssize_t = ::ssize_t;

    class gil_scoped_release
    {
    public:
        gil_scoped_release() {}
        ~gil_scoped_release() {}
    };

    struct array
    {
        enum
        {
            c_style = 1,
            f_style = 2,
            forcecast = 16
        };
    };

    template <typename T, ssize_t N>
    class unchecked_ref
    {
    public:
        const T *p;
        ssize_t shp[3];
        template <typename... Ix>
        const T *data(Ix... ix) const
        {
            ssize_t idx[] = {static_cast<ssize_t>(ix)...};
            static_assert(sizeof...(ix) == N, "index count");
            ssize_t off = 0;
            for (ssize_t k = 0; k < N; ++k)
                off = off * shp[k] + idx[k];
            return p + off;
        }
        template <typename... Ix>
        const T &operator()(Ix... ix) const { return *data(ix...); }
        ssize_t shape(ssize_t i) const { return shp[i]; }
    };

    template <typename T, ssize_t N>
    class mutable_ref
    {
    public:
        T *p;
        ssize_t shp[3];
        template <typename... Ix>
        T &operator()(Ix... ix)
        {
            ssize_t idx[] = {static_cast<ssize_t>(ix)...};
            static_assert(sizeof...(ix) == N, "index count");
            ssize_t off = 0;
            for (ssize_t k = 0; k < N; ++k)
                off = off * shp[k] + idx[k];
            return p[off];
        }
        template <typename... Ix>
        T *mutable_data(Ix... ix) { return &(*this)(ix...); }
    };

    // dense, C-contiguous, exactly-sized heap block (so that ASan sees every overrun)
    template <typename T, int Flags = 0>
    class array_t
    {
    public:
        std::vector<ssize_t> shp;
        std::shared_ptr<T[]> buf;
        ssize_t n = 0;

        array_t() {}
        array_t(std::initializer_list<ssize_t> s) : shp(s) { alloc(); }
        array_t(const std::vector<ssize_t> &s) : shp(s) { alloc(); }
        array_t(const std::vector<ssize_t> &s, const T *src) : shp(s)
        {
            alloc();
            if (n)
                std::memcpy(buf.get(), src, sizeof(T) * n);
        }
        void alloc()
        {
            n = 1;
            for (auto d : shp)
                n *= d;
            buf = std::shared_ptr<T[]>(new T[n > 0 ? n : 0]);
        }
        ssize_t ndim() const { return (ssize_t)shp.size(); }
        ssize_t shape(ssize_t i) const { return shp.at(i); }
        ssize_t size() const { return n; }
        const T *data() const { return buf.get(); }
        T *mutable_data() { return buf.get(); }

        template <ssize_t N>
        unchecked_ref<T, N> unchecked() const
        {
            unchecked_ref<T, N> r;
            r.p = buf.get();
            for (ssize_t k = 0; k < 3; ++k)
                r.shp[k] = k < (ssize_t)shp.size() ? shp[k] : 1;
            return r;
        }
        template <ssize_t N>
        mutable_ref<T, N> mutable_unchecked()
        {
            mutable_ref<T, N> r;
            r.p = buf.get();
            for (ssize_t k = 0; k < 3; ++k)
                r.shp[k] = k < (ssize_t)shp.size() ? shp[k] : 1;
            return r;
        }
    };

    // records what the extension registers: name -> function pointer (float and double flavours)
    class module_
    {
    public:
        using fn_f = array_t<float, array::c_style | array::forcecast> (*)(const array_t<float, array::c_style | array::forcecast> &, const array_t<float, array::c_style | array::forcecast> &);
        using fn_d = array_t<double, array::c_style | array::forcecast> (*)(const array_t<double, array::c_style | array::forcecast> &, const array_t<double, array::c_style | array::forcecast> &);
        std::vector<std::pair<std::string, fn_f>> f32;
        std::vector<std::pair<std::string, fn_d>> f64;
        std::vector<std::string> docs;
        module_ &def(const char *name, fn_f f, const char *doc = "")
        {
            f32.emplace_back(name, f);
            docs.emplace_back(doc);
            return *this;
        }
        module_ &def(const char *name, fn_d f, const char *doc = "")
        {
            f64.emplace_back(name, f);
            docs.emplace_back(doc);
            return *this;
        }
    };
} // namespace pybind11
