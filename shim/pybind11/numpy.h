#pragma once
#include <pybind11/pybind11.h>
