#!/bin/sh
# offline setup: make sure hypothesis (and atheris for the fuzz legs) are importable by /venv/bin/python
set -e
cd "$(dirname "$0")"
mkdir -p .deps out evidence
if ! PYTHONPATH=.deps /venv/bin/python -c 'import hypothesis' 2>/dev/null; then
  /venv/bin/pip install -q --no-index --find-links /opt/veriftools/wheels --target .deps hypothesis
fi
if ! PYTHONPATH=.deps /venv/bin/python -c 'import atheris' 2>/dev/null; then
  /venv/bin/pip install -q --no-index --find-links /opt/veriftools/wheels --target .deps atheris || echo "atheris unavailable: fuzz legs will be skipped"
fi
PYTHONPATH=.deps /venv/bin/python -c 'import hypothesis; print("hypothesis", hypothesis.__version__)'
