#!/bin/sh
# re-runs the whole sensitivity matrix (every mutant of every property) and prints a summary
cd "$(dirname "$0")/.."
for i in 01 02 03 04 05 06 07 08 09 10 11 12 13 14 15 16 17 18 19; do
  /venv/bin/python -m vf.mutate C$i 2>&1 | grep -v "Warn\|warn(\|it/s\|it\]" | grep "check=" | cut -c1-120
done
