#!/bin/sh
# runs every quick check at the given seeds; prints one line per (property, seed); non-zero exit codes stand out
cd "$(dirname "$0")/.."
SEEDS="${*:-1}"
for s in $SEEDS; do
  for i in 01 02 03 04 05 06 07 08 09 10 11 12 13 14 15 16 17 18 19; do
    t0=$(date +%s)
    VERIF_SEED=$s ./check C$i quick > out/allquick_C${i}_$s.log 2>&1
    rc=$?
    t1=$(date +%s)
    viol=$(grep -c '^VIOLATION' out/allquick_C${i}_$s.log)
    known=$(grep -c '^KNOWN-FINDING' out/allquick_C${i}_$s.log)
    echo "C$i seed=$s exit=$rc violations=$viol known=$known wall=$((t1-t0))s"
  done
done
