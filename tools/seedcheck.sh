#!/bin/sh
# tools/seedcheck.sh <ID> <dir with patch.diff> [tier] [leg ...]: run one check against a scratch copy of /repo with the patch applied
ID=$1; SRC=$2; TIER=${3:-quick}; shift; shift; [ $# -gt 0 ] && shift
cd "$(dirname "$0")/.."
D=$(mktemp -d /dev/shm/vfseed-XXXXXX)
rsync -a --exclude .git --exclude docs --exclude 'examples-*' --exclude benchmarks --exclude __pycache__ /repo/ $D/repo/
( cd $D/repo && patch -s -p1 -i "$SRC/patch.diff" ) || { echo "patch failed"; rm -rf $D; exit 2; }
VERIF_REPO=$D/repo ./check $ID $TIER "$@" 2>&1 | grep -v "^WARNING" | grep "^VIOLATION\|^  leg=\|^OK\|^HARNESS" | cut -c1-260 | head -12
rm -rf $D
