#!/bin/sh
# re-runs every stored seeded change against the CURRENT checks (scratch copies; nothing touches /repo):
#   tools/allseeded.sh [ID ...]     prints one line per change: detected / MISSED / patch-does-not-apply
cd "$(dirname "$0")/.."
sh ./setup.sh >/dev/null 2>&1
IDS="${*:-C01 C02 C03 C04 C05 C06 C07 C08 C09 C10 C11 C12 C13 C14 C15 C16 C17 C18 C19}"
for id in $IDS; do
  for dir in seeded/$id/*/; do
    name=$(basename $dir)
    [ -f $dir/patch.diff ] || continue
    if grep -q '"status": "superseded"' $dir/meta.json 2>/dev/null; then echo "$id/$name superseded"; continue; fi
    with=$(python3 -c "import json,sys; m=json.load(open('$dir/meta.json')); print((m.get('check_result') or {}).get('cmd','').split()[1] if (m.get('check_result') or {}).get('cmd') else '$id')" 2>/dev/null)
    [ -n "$with" ] || with=$id
    out=$(tools/seedcheck.sh $with $PWD/$dir quick 2>&1)
    if echo "$out" | grep -q "patch failed"; then echo "$id/$name patch-does-not-apply"
    elif echo "$out" | grep -q "^VIOLATION"; then echo "$id/$name detected (./check $with): $(echo "$out" | grep -c '^VIOLATION') signature(s)"
    else echo "$id/$name MISSED (./check $with) $(echo "$out" | tail -1 | cut -c1-100)"; fi
  done
done
