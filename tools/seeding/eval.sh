#!/bin/sh
# usage: tools/seeding/eval.sh <round> ID... ; evaluates /tmp/w<round>-<ID>/seeded/{1,2} as r<round>a / r<round>b against a scratch copy of /repo
N=$1; shift
cd "$(dirname "$0")/../.."
for id in "$@"; do
  for n in 1 2; do
    name=r${N}a; [ $n = 2 ] && name=r${N}b
    [ -d /tmp/w$N-$id/seeded/$n ] || continue
    PYTHONPATH=/verif:/verif/.deps /venv/bin/python -m vf.seeded $id /tmp/w$N-$id/seeded/$n $name --scratch > /tmp/eval$N-$id-$name.log 2>&1
    echo "$id $name rc=$? $(grep -h 'confirmed=\|detected=' /tmp/eval$N-$id-$name.log | cut -c1-300 | tr '\n' ' ')"
  done
done
