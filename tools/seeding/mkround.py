"""Prepares a seeding round: one scratch git worktree of /repo per property (under /tmp, outside /repo and /verif), with PROPERTY.txt,
ALREADY_TRIED.txt (summaries of every stored seeded change and mutant) and a prompt file for an independent sub-agent.
    /venv/bin/python tools/seeding/mkround.py <round number> [extra guidance file]
The sub-agents see only their worktree; their output is evaluated with vf.seeded (see tools/seeding/eval.sh)."""
import glob
import json
import os
import subprocess
import sys

HOME = os.path.dirname(os.path.dirname(os.path.dirname(os.path.abspath(__file__))))
N = sys.argv[1]
extra = open(sys.argv[2]).read() if len(sys.argv) > 2 else ""
props = {json.loads(l)["id"]: json.loads(l) for l in open(os.path.join(HOME, "properties.jsonl"))}
base = open(os.path.join(HOME, "tools/seeding/prompt_base.txt")).read().replace("/tmp/mh2-", f"/tmp/mh{N}-")
if extra:
    base = base.replace("ADDITIONAL GUIDANCE FOR THIS ROUND:", "ADDITIONAL GUIDANCE FOR THIS ROUND: " + extra.strip() + "\n")
so = glob.glob("/repo/molli_xt*.so")
for pid, p in props.items():
    d = f"/tmp/w{N}-{pid}"
    subprocess.run(["git", "-C", "/repo", "worktree", "add", "-q", "--detach", d, "HEAD"], check=True)
    for s in so:
        subprocess.run(["cp", s, d + "/"], check=True)
    txt = f"""PROPERTY {pid}: {p['title']}

STATEMENT: {p['statement']}

QUANTIFIER: {p['quantifier']['text']}

WHY THE EXISTING TESTS CANNOT SETTLE IT: {p['why_tests_cant']}

CODE ANCHORS: files {p['anchors']['files']}; mechanisms {[m['name'] + ' @ ' + m.get('where', '') for m in p['anchors']['mechanism']]}
"""
    open(d + "/PROPERTY.txt", "w").write(txt)
    tried = []
    for mf in sorted(glob.glob(os.path.join(HOME, f"seeded/{pid}/*/meta.json"))):
        m = json.load(open(mf))
        tried.append("- " + (m.get("summary") or (m.get("agent_meta") or {}).get("summary") or ""))
    mp = os.path.join(HOME, f"mutants/{pid}.json")
    if os.path.exists(mp):
        for m in json.load(open(mp)):
            tried.append("- " + m.get("note", "") + f"  [{m['name']}]")
    open(d + "/ALREADY_TRIED.txt", "w").write("Breaking changes already produced for this property (do not repeat these ideas):\n" + "\n".join(tried) + "\n")
    open(f"/tmp/w{N}-{pid}.prompt", "w").write(base.replace("__DIR__", d).replace("__ID__", pid))
print("prepared", len(props), "worktrees /tmp/w%s-*" % N)
