#!/bin/sh
# every thorough check once (seed from $1, default 1); one summary line each
cd "$(dirname "$0")/.."
sh ./setup.sh >/dev/null 2>&1
S="${1:-1}"
mkdir -p out
for i in 05 15 02 03 16 12 14 11 07 08 09 13 06 01 19 10 17 04 18; do
  t0=$(date +%s)
  VERIF_SEED=$S ./check C$i thorough > out/thorough_C${i}_$S.log 2>&1
  rc=$?
  t1=$(date +%s)
  echo "C$i thorough seed=$S exit=$rc violations=$(grep -c '^VIOLATION' out/thorough_C${i}_$S.log) wall=$((t1-t0))s $(grep '^OK\|^HARNESS' out/thorough_C${i}_$S.log | cut -c1-160)"
  grep -A2 '^VIOLATION' out/thorough_C${i}_$S.log | head -12
done
